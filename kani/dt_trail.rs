// C05 (and C04's unwrap-safety part) — the assignment trail: DecisionTracker::undo_until / undo_last /
// next_unpropagated / try_add_decision.  Attached as a child module of `crate::solver::decision_tracker`.
use super::*;
use crate::internal::arena::ArenaId;

struct Trail<const N: usize> {
    vars: [VariableId; N],
    values: [bool; N],
    levels: [u32; N],
    clauses: [ClauseId; N],
}

/// Builds a trail of N decisions on the concrete variables `ids` (R2) with symbolic values, symbolic
/// non-decreasing levels in 1..=1000 and symbolic reasons, through the real `try_add_decision`.
fn build<const N: usize>(ids: [usize; N]) -> (DecisionTracker, Trail<N>) {
    let mut t = DecisionTracker::default();
    let mut tr = Trail {
        vars: [VariableId::root(); N],
        values: [false; N],
        levels: [0; N],
        clauses: [ClauseId::install_root(); N],
    };
    let mut prev = 1u32;
    let mut i = 0;
    while i < N {
        let var = VariableId::from_usize(ids[i]);
        let value: bool = kani::any();
        let lvl: u32 = kani::any();
        kani::assume(lvl >= prev && lvl <= 1000);
        prev = lvl;
        let c: u32 = kani::any();
        kani::assume(c < 1000);
        let clause = ClauseId::from_usize(c as usize);
        assert!(t.assigned_value(var).is_none());
        let r = t.try_add_decision(Decision::new(var, value, clause), lvl);
        assert!(r == Ok(true), "adding a decision on an undecided variable succeeds");
        assert!(t.stack.len() == i + 1);
        assert!(t.level(var) == lvl && t.assigned_value(var) == Some(value));
        tr.vars[i] = var;
        tr.values[i] = value;
        tr.levels[i] = lvl;
        tr.clauses[i] = clause;
        i += 1;
    }
    (t, tr)
}

fn kept_prefix<const N: usize>(tr: &Trail<N>, level: u32) -> usize {
    let mut k = 0;
    let mut i = 0;
    while i < N {
        if tr.levels[i] <= level {
            k += 1;
        }
        i += 1;
    }
    k
}

fn check_state<const N: usize>(t: &DecisionTracker, tr: &Trail<N>, kept: usize) {
    assert!(t.stack.len() == kept, "exactly the decisions at or below the target level survive");
    let mut i = 0;
    while i < N {
        if i < kept {
            assert!(t.assigned_value(tr.vars[i]) == Some(tr.values[i]), "kept assignment unchanged");
            assert!(t.level(tr.vars[i]) == tr.levels[i], "kept level unchanged");
            assert!(t.stack[i].variable == tr.vars[i] && t.stack[i].value == tr.values[i]);
            assert!(t.find_clause_for_assignment(tr.vars[i]) == Some(tr.clauses[i]));
        } else {
            assert!(t.assigned_value(tr.vars[i]).is_none(), "undone variable is unassigned");
            assert!(t.level(tr.vars[i]) == 0, "undone variable has level 0");
            assert!(t.find_clause_for_assignment(tr.vars[i]).is_none());
        }
        i += 1;
    }
    assert!(t.propagate_index <= t.stack.len(), "propagate index within the trail");
}

fn undo_until_case<const N: usize>(ids: [usize; N]) {
    let (mut t, tr) = build::<N>(ids);
    // some prefix has already been propagated
    let p: usize = kani::any();
    kani::assume(p <= N);
    let mut i = 0;
    while i < N {
        if i < p {
            let d = t.next_unpropagated();
            assert!(d.is_some() && d.unwrap().variable == tr.vars[i], "decisions are propagated in trail order");
        }
        i += 1;
    }
    let target: u32 = kani::any();
    // run_sat/analyze only undo to a level >= the bottom decision's level (or to 0 = full reset)
    kani::assume(target == 0 || (target >= tr.levels[0] && target <= 1001));
    t.undo_until(target);
    let kept = if target == 0 { 0 } else { kept_prefix(&tr, target) };
    check_state(&t, &tr, kept);
    if target == 0 {
        assert!(t.propagate_index == 0);
    }
    // whatever is handed out for propagation next is a surviving decision
    match t.next_unpropagated() {
        Some(d) => {
            let mut found = false;
            let mut i = 0;
            while i < N {
                if i < kept && d.variable == tr.vars[i] && d.value == tr.values[i] {
                    found = true;
                }
                i += 1;
            }
            assert!(found, "next_unpropagated never returns an undone decision");
        }
        None => {}
    }
    kani::cover!(kept == N && target != 0, "nothing undone");
    kani::cover!(kept == 0 && target == 0, "full reset");
    kani::cover!(N < 2 || (kept >= 1 && kept < N), "proper prefix kept");
    std::mem::forget(t);
}

fn undo_last_case<const N: usize>(ids: [usize; N]) {
    // analyze() pops decisions one at a time; it never pops the bottom (root) decision
    let (mut t, tr) = build::<N>(ids);
    let pops: usize = kani::any();
    kani::assume(pops >= 1 && pops < N);
    let mut done = 0;
    let mut i = 0;
    while i < N {
        if done < pops {
            let (d, top_level) = t.undo_last();
            let idx = N - 1 - done;
            assert!(d.variable == tr.vars[idx] && d.value == tr.values[idx] && d.derived_from == tr.clauses[idx],
                    "undo_last returns the most recent decision");
            assert!(top_level == tr.levels[idx - 1], "and the level of the new top of the trail");
            assert!(t.propagate_index == t.stack.len());
            done += 1;
        }
        i += 1;
    }
    check_state(&t, &tr, N - pops);
    kani::cover!(pops == N - 1, "popped down to the bottom decision");
    std::mem::forget(t);
}

#[kani::proof]
#[kani::unwind(8)]
fn dt_undo_until_1() {
    undo_until_case::<1>([0]);
}

#[kani::proof]
#[kani::unwind(8)]
fn dt_undo_until_2() {
    undo_until_case::<2>([0, 3]);
}

#[kani::proof]
#[kani::unwind(8)]
fn dt_undo_until_3() {
    undo_until_case::<3>([0, 2, 1]);
}

#[kani::proof]
#[kani::unwind(8)]
fn dt_undo_until_4() {
    undo_until_case::<4>([0, 3, 1, 4]);
}

#[kani::proof]
#[kani::unwind(8)]
fn dt_undo_last_2() {
    undo_last_case::<2>([0, 2]);
}

#[kani::proof]
#[kani::unwind(8)]
fn dt_undo_last_3() {
    undo_last_case::<3>([0, 2, 1]);
}

#[kani::proof]
#[kani::unwind(8)]
fn dt_undo_last_4() {
    undo_last_case::<4>([0, 3, 1, 4]);
}

#[kani::proof]
#[kani::unwind(8)]
fn dt_readd_is_noop_or_conflict() {
    // the trail holds one decision on a concrete variable; adding it again never grows the trail
    let (mut t, tr) = build::<1>([2]);
    let again: bool = kani::any();
    let lvl: u32 = kani::any();
    kani::assume(lvl >= 1 && lvl <= 1000);
    let r = t.try_add_decision(Decision::new(tr.vars[0], again, ClauseId::install_root()), lvl);
    assert!(r == if again == tr.values[0] { Ok(false) } else { Err(()) });
    check_state(&t, &tr, 1);
    kani::cover!(r.is_err(), "conflicting re-add");
    kani::cover!(r == Ok(false), "redundant re-add");
    std::mem::forget(t);
}

#[kani::proof]
#[kani::unwind(8)]
fn dt_clear_resets_everything() {
    let (mut t, tr) = build::<3>([0, 1, 2]);
    let _ = t.next_unpropagated();
    t.clear();
    check_state(&t, &tr, 0);
    assert!(t.propagate_index == 0 && t.next_unpropagated().is_none());
    kani::cover!(true, "reached");
    std::mem::forget(t);
}

#[kani::proof]
#[kani::unwind(8)]
fn dt_twin_must_fail() {
    let (mut t, tr) = build::<2>([0, 3]);
    let target: u32 = kani::any();
    kani::assume(target >= tr.levels[0] && target <= 1001);
    t.undo_until(target);
    assert!(t.stack.len() == 2, "vacuity witness");
    std::mem::forget(t);
}

/// Path-mode harness (CBMC --paths lifo): the LENGTH of the trail is symbolic too (1..=4 decisions), which the
/// merged-state encoding cannot do (a symbolic number of pushes makes Vec lengths symbolic, DESIGN P11).
#[kani::proof]
#[kani::unwind(8)]
fn dt_paths_symbolic_length() {
    const IDS: [usize; 4] = [0, 3, 1, 4];
    let n: usize = kani::any();
    kani::assume(n >= 1 && n <= 4);
    let mut t = DecisionTracker::default();
    let mut vars = [VariableId::root(); 4];
    let mut values = [false; 4];
    let mut levels = [0u32; 4];
    let mut prev = 1u32;
    let mut i = 0;
    while i < 4 {
        if i < n {
            let var = VariableId::from_usize(IDS[i]);
            let value: bool = kani::any();
            let lvl: u32 = kani::any();
            kani::assume(lvl >= prev && lvl <= 1000);
            prev = lvl;
            let r = t.try_add_decision(Decision::new(var, value, ClauseId::install_root()), lvl);
            assert!(r == Ok(true));
            vars[i] = var;
            values[i] = value;
            levels[i] = lvl;
        }
        i += 1;
    }
    let p: usize = kani::any();
    kani::assume(p <= n);
    let mut i = 0;
    while i < 4 {
        if i < p {
            let d = t.next_unpropagated();
            assert!(d.is_some() && d.unwrap().variable == vars[i]);
        }
        i += 1;
    }
    let target: u32 = kani::any();
    kani::assume(target == 0 || (target >= levels[0] && target <= 1001));
    t.undo_until(target);
    let mut kept = 0;
    let mut i = 0;
    while i < 4 {
        if i < n && target != 0 && levels[i] <= target {
            kept += 1;
        }
        i += 1;
    }
    assert!(t.stack.len() == kept, "exactly the decisions at or below the target level survive");
    let mut i = 0;
    while i < 4 {
        if i < n {
            if i < kept {
                assert!(t.assigned_value(vars[i]) == Some(values[i]) && t.level(vars[i]) == levels[i]);
            } else {
                assert!(t.assigned_value(vars[i]).is_none() && t.level(vars[i]) == 0);
            }
        }
        i += 1;
    }
    assert!(t.propagate_index <= t.stack.len());
    if let Some(d) = t.next_unpropagated() {
        let mut found = false;
        let mut i = 0;
        while i < 4 {
            if i < kept && d.variable == vars[i] && d.value == values[i] {
                found = true;
            }
            i += 1;
        }
        assert!(found, "next_unpropagated never returns an undone decision");
    }
    kani::cover!(n == 4 && kept == 2, "four decisions, two kept");
    kani::cover!(n == 1 && kept == 0, "single decision fully reset");
    kani::cover!(n == 3 && kept == 3, "nothing undone");
    std::mem::forget(t);
}
