// C20 — SolverCache answers: partition, sorted order with the favored candidate first, idempotence without
// consulting the provider again, availability query.  Child module of crate::solver::cache, built against the
// dependency shims (DESIGN 8.1): FrozenMap / FrozenCopyMap / BitVec / futures are the association-list shims.
use super::*;
use crate::{Interner, KnownDependencies, StringId, VersionSetUnionId};
use futures::FutureExt;
use std::cell::Cell;

/// One package (name 0) with candidates s0, s1, s2 listed in that order.  Version set id = mask over them.
struct P {
    favored: Option<SolvableId>,
    reverse_sort: bool,
    hint: u8, // 0 none, 1 all, 2 some([s1])
    n_candidates_calls: Cell<u32>,
    n_filter_calls: Cell<u32>,
    n_sort_calls: Cell<u32>,
    n_deps_calls: Cell<u32>,
}
impl Interner for P {
    fn display_solvable(&self, _s: SolvableId) -> impl std::fmt::Display + '_ { "" }
    fn display_name(&self, _n: NameId) -> impl std::fmt::Display + '_ { "" }
    fn display_version_set(&self, _v: VersionSetId) -> impl std::fmt::Display + '_ { "" }
    fn display_string(&self, _s: StringId) -> impl std::fmt::Display + '_ { "" }
    fn version_set_name(&self, _v: VersionSetId) -> NameId { NameId(0) }
    fn solvable_name(&self, _s: SolvableId) -> NameId { NameId(0) }
    fn version_sets_in_union(&self, _u: VersionSetUnionId) -> impl Iterator<Item = VersionSetId> { std::iter::empty() }
}
impl DependencyProvider for P {
    async fn filter_candidates(&self, candidates: &[SolvableId], vs: VersionSetId, inverse: bool) -> Vec<SolvableId> {
        self.n_filter_calls.set(self.n_filter_calls.get() + 1);
        let mut out = Vec::with_capacity(3);
        let mut i = 0;
        while i < candidates.len() {
            let c = candidates[i];
            if ((vs.0 >> c.0) & 1 == 1) != inverse { out.push(c); }
            i += 1;
        }
        out
    }
    async fn get_candidates(&self, _name: NameId) -> Option<Candidates> {
        self.n_candidates_calls.set(self.n_candidates_calls.get() + 1);
        Some(Candidates {
            candidates: vec![SolvableId(0), SolvableId(1), SolvableId(2)],
            favored: self.favored,
            locked: None,
            hint_dependencies_available: match self.hint {
                0 => HintDependenciesAvailable::None,
                1 => HintDependenciesAvailable::All,
                _ => HintDependenciesAvailable::Some(vec![SolvableId(1)]),
            },
            excluded: Vec::new(),
        })
    }
    async fn sort_candidates(&self, _solver: &SolverCache<Self>, solvables: &mut [SolvableId]) {
        self.n_sort_calls.set(self.n_sort_calls.get() + 1);
        if self.reverse_sort { solvables.reverse(); }
    }
    async fn get_dependencies(&self, _s: SolvableId) -> Dependencies {
        self.n_deps_calls.set(self.n_deps_calls.get() + 1);
        Dependencies::Known(KnownDependencies::default())
    }
}

fn provider<const HINT: u8>() -> P {
    let f: u8 = kani::any();
    kani::assume(f <= 4);
    P {
        favored: match f { 0 => None, 1 => Some(SolvableId(0)), 2 => Some(SolvableId(1)), 3 => Some(SolvableId(2)), _ => Some(SolvableId(7)) },
        reverse_sort: kani::any(),
        hint: HINT,
        n_candidates_calls: Cell::new(0), n_filter_calls: Cell::new(0), n_sort_calls: Cell::new(0), n_deps_calls: Cell::new(0),
    }
}

fn member(xs: &[SolvableId], s: u32) -> bool {
    let mut i = 0;
    while i < xs.len() { if xs[i].0 == s { return true; } i += 1; }
    false
}

/// MASK: which of s0..s2 the version set matches (enumerated: it decides the lengths of the cached lists, DESIGN R2).
/// Symbolic: favored candidate (none / each candidate / a non-candidate), sort order (identity / reversed).
fn partition_and_order<const MASK: u32>() {
    let cache = SolverCache::new(provider::<0>());
    let vs = VersionSetId(MASK);
    let n_match = (MASK & 1) + ((MASK >> 1) & 1) + ((MASK >> 2) & 1);
    // non-matching first, then matching: each list must come from its own cache slot
    let non = cache.get_or_cache_non_matching_candidates(vs).now_or_never().unwrap().ok().unwrap();
    let mat = cache.get_or_cache_matching_candidates(vs).now_or_never().unwrap().ok().unwrap();
    assert!(mat.len() as u32 == n_match && non.len() as u32 == 3 - n_match, "the two lists partition the candidates");
    let mut s = 0;
    while s < 3 {
        let m = (MASK >> s) & 1 == 1;
        assert!(member(mat, s) == m, "matching list = candidates the version set matches");
        assert!(member(non, s) == !m, "non-matching list = the other candidates");
        s += 1;
    }
    let filters = cache.provider().n_filter_calls.get();
    let cands = cache.provider().n_candidates_calls.get();
    assert!(cands == 1, "candidates of the package fetched once");
    // repeated queries: identical contents, provider not consulted again
    let mat2 = cache.get_or_cache_matching_candidates(vs).now_or_never().unwrap().ok().unwrap();
    let non2 = cache.get_or_cache_non_matching_candidates(vs).now_or_never().unwrap().ok().unwrap();
    assert!(mat2.len() == mat.len() && non2.len() == non.len());
    let mut i = 0;
    while i < mat.len() { assert!(mat2[i] == mat[i]); i += 1; }
    let mut i = 0;
    while i < non.len() { assert!(non2[i] == non[i]); i += 1; }
    assert!(cache.provider().n_filter_calls.get() == filters && cache.provider().n_candidates_calls.get() == 1,
            "repeated queries do not consult the provider");
    // sorted candidates: matching ones in provider order, favored moved to the front, others keep their relative order
    let sorted = cache.get_or_cache_sorted_candidates(Requirement::Single(vs)).now_or_never().unwrap().ok().unwrap();
    assert!(sorted.len() == mat.len(), "sorted candidates are the matching ones");
    let fav = cache.provider().favored;
    let rev = cache.provider().reverse_sort;
    // expected: matching ids ascending (or descending), then favored to the front
    let mut exp = [0u32; 3];
    let mut n = 0usize;
    let mut k = 0;
    while k < 3 {
        let s = if rev { 2 - k } else { k };
        if (MASK >> s) & 1 == 1 { exp[n] = s; n += 1; }
        k += 1;
    }
    if let Some(f) = fav {
        let mut pos = 3usize;
        let mut i = 0;
        while i < n { if exp[i] == f.0 { pos = i; } i += 1; }
        if pos < 3 {
            let mut j = pos;
            while j > 0 { exp[j] = exp[j - 1]; j -= 1; }
            exp[0] = f.0;
        }
    }
    let mut i = 0;
    while i < n { assert!(sorted[i].0 == exp[i], "sort_candidates order with the favored candidate first"); i += 1; }
    let sorts = cache.provider().n_sort_calls.get();
    let sorted2 = cache.get_or_cache_sorted_candidates(Requirement::Single(vs)).now_or_never().unwrap().ok().unwrap();
    assert!(sorted2.len() == sorted.len() && cache.provider().n_sort_calls.get() == sorts, "sorted list is cached");
    kani::cover!(fav == Some(SolvableId(2)) && rev, "favored last candidate, reversed order");
    kani::cover!(fav.is_none(), "no favored candidate");
    std::mem::forget(cache);
}

#[kani::proof]
#[kani::unwind(6)]
fn c20_cache_mask5() { partition_and_order::<5>(); }
#[kani::proof]
#[kani::unwind(6)]
fn c20_cache_mask7() { partition_and_order::<7>(); }
#[kani::proof]
#[kani::unwind(6)]
fn c20_cache_mask2() { partition_and_order::<2>(); }
#[kani::proof]
#[kani::unwind(6)]
fn c20_cache_mask0() { partition_and_order::<0>(); }

/// availability query: true exactly for hinted or already fetched solvables
fn availability<const HINT: u8>() {
    let cache = SolverCache::new(provider::<HINT>());
    let q: u32 = kani::any();
    kani::assume(q < 5);
    assert!(!cache.are_dependencies_available_for(SolvableId(q)), "nothing is available before the candidates arrive");
    let _ = cache.get_or_cache_candidates(NameId(0)).now_or_never().unwrap().ok().unwrap();
    let hinted = match HINT { 0 => false, 1 => q < 3, _ => q == 1 };
    assert!(cache.are_dependencies_available_for(SolvableId(q)) == hinted, "hinted solvables are available, others are not");
    let fetch: u32 = kani::any();
    kani::assume(fetch < 3);
    let _ = cache.get_or_cache_dependencies(SolvableId(fetch)).now_or_never().unwrap().ok().unwrap();
    assert!(cache.are_dependencies_available_for(SolvableId(q)) == (hinted || q == fetch), "fetched solvables are available too");
    let _ = cache.get_or_cache_dependencies(SolvableId(fetch)).now_or_never().unwrap().ok().unwrap();
    assert!(cache.provider().n_deps_calls.get() == 1, "dependencies are requested once");
    kani::cover!(q == fetch && !hinted, "available only because it was fetched");
    kani::cover!(hinted && q != fetch, "available only because it was hinted");
    std::mem::forget(cache);
}
#[kani::proof]
#[kani::unwind(6)]
fn c20_avail_hint_none() { availability::<0>(); }
#[kani::proof]
#[kani::unwind(6)]
fn c20_avail_hint_all() { availability::<1>(); }
#[kani::proof]
#[kani::unwind(6)]
fn c20_avail_hint_some() { availability::<2>(); }

#[kani::proof]
#[kani::unwind(6)]
fn c20_cache_twin_must_fail() {
    let cache = SolverCache::new(provider::<0>());
    let mat = cache.get_or_cache_matching_candidates(VersionSetId(5)).now_or_never().unwrap().ok().unwrap();
    assert!(mat.len() == 2);
    std::mem::forget(cache);
    assert!(false, "vacuity witness");
}
