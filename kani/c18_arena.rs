// C18 — append-only chunked arena: dense ids, stable references, iteration.
// Attached as a child module of `crate::internal::arena`; CHUNK_SIZE is scaled to 4 in the scratch copy,
// so K allocations with K up to 10 cross two chunk boundaries.
use super::*;
use crate::internal::id::SolvableId;

/// K allocations, then ONE read (every read through the chunk vectors costs CBMC ~2 minutes, so the
/// read position is enumerated per harness: R) plus the reference to element 0 held across all later
/// allocations.
fn arena_case<const K: usize, const R: usize>() {
    let a: Arena<SolvableId, u32> = Arena::new();
    assert!(a.len() == 0);
    let mut vals = [0u32; K];
    let mut first: Option<&u32> = None;
    let mut i = 0;
    while i < K {
        vals[i] = kani::any();
        let id = a.alloc(vals[i]);
        assert!(id.to_usize() == i, "ids are dense and in allocation order");
        assert!(a.len() == i + 1);
        if i == 0 {
            first = Some(&a[id]); // reference held across every later allocation
        }
        i += 1;
    }
    // the early reference is still valid and unchanged (CBMC dead-object / bounds checks apply)
    assert!(*first.unwrap() == vals[0], "early reference unchanged by later allocations");
    if R != 0 {
        assert!(a[SolvableId::from_usize(R)] == vals[R], "index returns the allocated value");
    }
    kani::cover!(vals[0] == u32::MAX, "extreme value stored");
    kani::cover!(vals[K - 1] == 0, "zero stored last");
    std::mem::forget(a);
}

/// iter(): every element once, in id order, then None (K kept small: each step is a read)
fn arena_iter_case<const K: usize>() {
    let a: Arena<SolvableId, u32> = Arena::new();
    let mut vals = [0u32; K];
    let mut i = 0;
    while i < K {
        vals[i] = kani::any();
        a.alloc(vals[i]);
        i += 1;
    }
    let mut it = a.iter();
    let mut i = 0;
    while i < K {
        match it.next() {
            Some((id, v)) => assert!(id.to_usize() == i && *v == vals[i], "iter yields (id, value) in order"),
            None => assert!(false, "iter ended early"),
        }
        i += 1;
    }
    assert!(it.next().is_none(), "iter ends after len elements");
    kani::cover!(vals[0] != vals[K - 1], "distinct values");
    std::mem::forget(a);
}

#[kani::proof]
#[kani::unwind(12)]
fn c18_arena_iter_2() {
    arena_iter_case::<2>();
}

#[kani::proof]
#[kani::unwind(12)]
fn c18_arena_iter_3() {
    arena_iter_case::<3>();
}

// ---- generated arena instances are appended by the check -----------------------------------------

/// Indexing with an id that was never handed out must panic (the bounds assert), never read out of bounds.
#[kani::proof]
#[kani::unwind(12)]
#[kani::should_panic]
fn c18_arena_index_out_of_range_panics() {
    let a: Arena<SolvableId, u32> = Arena::new();
    let mut i = 0;
    while i < 5 {
        a.alloc(kani::any());
        i += 1;
    }
    let j: usize = kani::any();
    kani::assume(j >= 5 && j < 16);
    let _ = a[SolvableId::from_usize(j)];
}

#[kani::proof]
#[kani::unwind(12)]
fn c18_arena_twin_must_fail() {
    let a: Arena<SolvableId, u32> = Arena::new();
    let v: u32 = kani::any();
    let id = a.alloc(v);
    assert!(a[id] != v, "vacuity witness");
    std::mem::forget(a);
}
