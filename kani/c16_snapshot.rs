// C16 — id allocation of SnapshotProvider::add_package_requirement vs. captured version sets.
// Attached as a child module of `crate::snapshot`.  mapping.rs VALUES_PER_CHUNK is scaled to 4.
use super::*;

fn stub_random_state() -> ahash::RandomState {
    ahash::RandomState::with_seeds(1, 2, 3, 4)
}

const PKG_A: NameId = NameId(0);
const PKG_B: NameId = NameId(1);

/// A snapshot with two (empty) packages and captured version sets with the given ids.  The captured
/// version set with id `i` belongs to package name `100 + i`, which identifies it when resolved.
fn snapshot_with<const N: usize>(ids: [u32; N]) -> DependencySnapshot {
    let mut s = DependencySnapshot::default();
    s.packages.insert(PKG_A, Package { name: String::new(), solvables: Vec::new(), excluded: Vec::new() });
    s.packages.insert(PKG_B, Package { name: String::new(), solvables: Vec::new(), excluded: Vec::new() });
    let mut i = 0;
    while i < N {
        s.version_sets.insert(
            VersionSetId(ids[i]),
            VersionSet { name: NameId(100 + ids[i]), display: String::new(), matching_candidates: HashSet::default() },
        );
        i += 1;
    }
    s
}

fn check_captured<const N: usize>(p: &SnapshotProvider<'_>, ids: [u32; N]) {
    let mut i = 0;
    while i < N {
        // must neither panic nor resolve to an added entry
        assert!(p.version_set_name(VersionSetId(ids[i])) == NameId(100 + ids[i]),
                "captured version set (also the highest-numbered) stays resolvable and unshadowed");
        i += 1;
    }
}

fn case<const N: usize, const ADDS: usize>(ids: [u32; N]) {
    let snap = snapshot_with(ids);
    let mut p = snap.provider();
    check_captured(&p, ids);
    let mut added = [VersionSetId(u32::MAX); ADDS];
    let mut pk = [PKG_A; ADDS];
    let mut k = 0;
    while k < ADDS {
        let which: bool = kani::any();
        pk[k] = if which { PKG_A } else { PKG_B };
        let id = p.add_package_requirement(pk[k], "*");
        // fresh: not a captured id, not an earlier added id
        let mut i = 0;
        while i < N {
            assert!(id != VersionSetId(ids[i]), "added version set id aliases a captured one");
            i += 1;
        }
        let mut j = 0;
        while j < k {
            assert!(id != added[j], "added version set ids are distinct");
            j += 1;
        }
        added[k] = id;
        k += 1;
        // everything resolvable after every addition
        check_captured(&p, ids);
        let mut j = 0;
        while j < k {
            assert!(p.version_set_name(added[j]) == pk[j], "added id resolves to the added entry");
            j += 1;
        }
    }
    kani::cover!(ADDS == 0 || pk[0] == PKG_B, "package B chosen");
    std::mem::forget(p);
    std::mem::forget(snap);
}

// ---- generated instances follow -------------------------------------------------------------------
