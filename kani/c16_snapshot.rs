// C16 — id allocation of SnapshotProvider::add_package_requirement vs. captured version sets.
// Attached as a child module of `crate::snapshot`.  mapping.rs VALUES_PER_CHUNK is scaled to 4.
use super::*;

fn stub_random_state() -> ahash::RandomState {
    ahash::RandomState::with_seeds(1, 2, 3, 4)
}

const PKG_A: NameId = NameId(0);
const PKG_B: NameId = NameId(1);

/// A snapshot with two (empty) packages and captured version sets with the given (concrete) ids.  The
/// package name recorded in each captured version set is SYMBOLIC (>= 100, so it can never be confused
/// with the two real packages): resolving a captured id must return exactly that value.
fn snapshot_with<const N: usize>(ids: [u32; N]) -> (DependencySnapshot, [NameId; N]) {
    let mut s = DependencySnapshot::default();
    s.packages.insert(PKG_A, Package { name: String::new(), solvables: Vec::new(), excluded: Vec::new() });
    s.packages.insert(PKG_B, Package { name: String::new(), solvables: Vec::new(), excluded: Vec::new() });
    let mut names = [NameId(0); N];
    let mut i = 0;
    while i < N {
        let n: u32 = kani::any();
        kani::assume(n >= 100);
        names[i] = NameId(n);
        s.version_sets.insert(
            VersionSetId(ids[i]),
            VersionSet { name: names[i], display: String::new(), matching_candidates: HashSet::default() },
        );
        i += 1;
    }
    (s, names)
}

fn check_captured<const N: usize>(p: &SnapshotProvider<'_>, ids: [u32; N], names: &[NameId; N]) {
    let mut i = 0;
    while i < N {
        // must neither panic nor resolve to an added entry
        assert!(p.version_set_name(VersionSetId(ids[i])) == names[i],
                "captured version set (also the highest-numbered) stays resolvable and unshadowed");
        i += 1;
    }
}

/// add_package_requirement itself cannot be executed (its `collect::<HashSet<_>>()` drags hashbrown in and
/// does not finish, DESIGN P7).  Its id computation is therefore sliced VERBATIM from the current source
/// into `verif_next_id` (generated below), and the one remaining effect - pushing the new entry onto
/// `additional_version_sets` - is replayed here.  Resolution goes through the real `version_set()`.
fn add_like(p: &mut SnapshotProvider<'_>, name: NameId) -> VersionSetId {
    let id = p.verif_next_id();
    p.additional_version_sets.push(VersionSet {
        name,
        display: String::new(),
        matching_candidates: HashSet::default(),
    });
    VersionSetId::from_usize(id)
}

fn case<const N: usize, const ADDS: usize>(ids: [u32; N]) {
    let (snap, names) = snapshot_with(ids);
    let mut p = snap.provider();
    check_captured(&p, ids, &names);
    let mut added = [VersionSetId(u32::MAX); ADDS];
    let mut pk = [PKG_A; ADDS];
    let mut k = 0;
    while k < ADDS {
        let which: bool = kani::any();
        pk[k] = if which { PKG_A } else { PKG_B };
        let id = add_like(&mut p, pk[k]);
        // fresh: not a captured id, not an earlier added id
        let mut i = 0;
        while i < N {
            assert!(id != VersionSetId(ids[i]), "added version set id aliases a captured one");
            i += 1;
        }
        let mut j = 0;
        while j < k {
            assert!(id != added[j], "added version set ids are distinct");
            j += 1;
        }
        added[k] = id;
        k += 1;
        // everything resolvable after every addition
        check_captured(&p, ids, &names);
        let mut j = 0;
        while j < k {
            assert!(p.version_set_name(added[j]) == pk[j], "added id resolves to the added entry");
            j += 1;
        }
    }
    kani::cover!(N == 0 || names[0] == NameId(u32::MAX), "extreme captured name");
    std::mem::forget(p);
    std::mem::forget(snap);
}

// ---- generated instances follow -------------------------------------------------------------------
