// C01/K1 — literal codec and evaluation.  Attached as a child module of `crate::solver::clause`.
use super::*;
use crate::internal::arena::ArenaId;
use crate::solver::decision_map::DecisionMap;

const MAX_VAR: u32 = 1 << 30;

fn any_var() -> (u32, VariableId) {
    let v: u32 = kani::any();
    kani::assume(v < MAX_VAR);
    (v, VariableId::from_usize(v as usize))
}

#[kani::proof]
#[kani::unwind(2)]
fn k1_literal_codec() {
    let (v, var) = any_var();
    let negate: bool = kani::any();
    let lit = Literal::new(var, negate);
    assert!(lit.variable() == var);
    assert!(lit.negate() == negate);
    assert!(lit.satisfying_value() == !negate);
    let u = lit.to_usize();
    assert!(u == ((v as usize) << 1 | negate as usize));
    assert!(Literal::from_usize(u) == lit);
    assert!(var.positive() == Literal::new(var, false));
    assert!(var.negative() == Literal::new(var, true));
    assert!(var.positive() != var.negative());
    assert!(var.positive().variable() == var && var.negative().variable() == var);
    assert!(!var.positive().negate() && var.negative().negate());
    // distinct variables never share a literal
    let (w, other) = any_var();
    kani::assume(w != v);
    assert!(other.positive() != lit && other.negative() != lit);
    kani::cover!(negate && v == MAX_VAR - 1, "largest variable, negative");
    kani::cover!(!negate && v == 0, "root variable, positive");
}

// eval() against a DecisionMap holding an arbitrary value/level for a (concrete-id) variable:
// the id is enumerated over {0,1,5} because a symbolic id makes the Vec length symbolic (R2).
fn eval_for(id: usize) {
    let var = VariableId::from_usize(id);
    let mut map = DecisionMap::default();
    assert!(var.positive().eval(&map).is_none() && var.negative().eval(&map).is_none());
    assert!(map.value(var).is_none() && map.level(var) == 0);
    let value: bool = kani::any();
    let level: u32 = kani::any();
    kani::assume(level >= 1 && level <= i32::MAX as u32);
    map.set(var, value, level);
    assert!(map.value(var) == Some(value));
    assert!(map.level(var) == level);
    assert!(var.positive().eval(&map) == Some(value));
    assert!(var.negative().eval(&map) == Some(!value));
    let negate: bool = kani::any();
    assert!(Literal::new(var, negate).eval(&map) == Some(value != negate));
    // an unrelated variable (inside and outside the map's range) is unassigned
    let below = VariableId::from_usize(if id == 0 { 1 } else { id - 1 });
    let above = VariableId::from_usize(id + 1);
    assert!(map.value(above).is_none() && map.level(above) == 0);
    if id > 0 {
        assert!(map.value(below).is_none() && map.level(below) == 0);
    }
    map.reset(var);
    assert!(map.value(var).is_none() && map.level(var) == 0);
    map.reset(above); // out of range: must be a no-op
    assert!(map.value(above).is_none());
    kani::cover!(value && level == i32::MAX as u32, "true at the maximal level");
    kani::cover!(!value && level == 1, "false at level 1");
}

#[kani::proof]
#[kani::unwind(8)]
fn k1_eval_var0() {
    eval_for(0);
}

#[kani::proof]
#[kani::unwind(8)]
fn k1_eval_var1() {
    eval_for(1);
}

#[kani::proof]
#[kani::unwind(8)]
fn k1_eval_var5() {
    eval_for(5);
}

// vacuity twin: same prelude, must come back FAILED
#[kani::proof]
#[kani::unwind(2)]
fn k1_twin_must_fail() {
    let (_v, var) = any_var();
    let negate: bool = kani::any();
    let lit = Literal::new(var, negate);
    assert!(lit.variable() != var, "vacuity witness");
}
