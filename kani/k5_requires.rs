// C02/K5 (+C04) — the constructors that decide whether a lazily added clause invalidates the partial
// solution: WatchedLiterals::requires / constrains.  Attached as a child module of
// `crate::solver::decision_tracker` so that the assignment map can be filled without building a trail
// (these constructors only read `assigned_value`).
use super::*;
use crate::internal::arena::ArenaId;
use crate::internal::id::VersionSetId;
use crate::solver::clause::{Clause, Literal, WatchedLiterals};
use crate::Requirement;

const PARENT: usize = 1;
const CANDS: [usize; 3] = [2, 3, 4];

/// state: 0 unassigned, 1 true, 2 false — written into a map pre-sized for ids 0..=5
fn tracker_with(states: &[u8; 5]) -> DecisionTracker {
    let mut t = DecisionTracker::default();
    t.map.set(VariableId::from_usize(5), true, 1);
    t.map.reset(VariableId::from_usize(5));
    let mut i = 0;
    while i < 5 {
        let var = VariableId::from_usize(i);
        if states[i] != 0 {
            let lvl: u32 = kani::any();
            kani::assume(lvl >= 1 && lvl <= 1000);
            t.map.set(var, states[i] == 1, lvl);
        }
        i += 1;
    }
    t
}

fn any_states() -> [u8; 5] {
    let s: [u8; 5] = kani::any();
    kani::assume(s[0] < 3 && s[1] < 3 && s[2] < 3 && s[3] < 3 && s[4] < 3);
    // precondition of both constructors (asserted by them): the parent is not assigned false
    kani::assume(s[PARENT] != 2);
    s
}

fn requires_case<const N: usize>() {
    let states = any_states();
    let t = tracker_with(&states);
    let parent = VariableId::from_usize(PARENT);
    let req = Requirement::Single(VersionSetId(kani::any()));
    let mut cands = [VariableId::root(); N];
    let mut i = 0;
    while i < N {
        cands[i] = VariableId::from_usize(CANDS[i]);
        i += 1;
    }
    let (w, conflict, kind) = WatchedLiterals::requires(parent, req, cands.iter().copied(), &t);
    assert!(matches!(kind, Clause::Requires(p, r) if p == parent && r == req));
    let mut all_false = true;
    let mut i = 0;
    while i < N {
        if states[CANDS[i]] != 2 {
            all_false = false;
        }
        i += 1;
    }
    if N == 0 {
        assert!(w.is_none(), "a requirement without candidates is an assertion: nothing to watch");
        assert!(!conflict);
    } else {
        assert!(conflict == all_false, "conflict exactly when every candidate is already false");
        let w = w.unwrap();
        assert!(w.watched_literals[0] == parent.negative(), "first watch is the negated parent");
        let second = w.watched_literals[1];
        assert!(!second.negate(), "second watch is a positive candidate literal");
        let mut is_cand = false;
        let mut i = 0;
        while i < N {
            if second.variable() == cands[i] {
                is_cand = true;
                if !conflict {
                    assert!(states[CANDS[i]] != 2, "the watched candidate is not false unless the clause conflicts");
                }
            }
            i += 1;
        }
        assert!(is_cand, "second watch is one of the candidates");
        assert!(w.next_watches[0].is_none() && w.next_watches[1].is_none());
    }
    kani::cover!(conflict, "conflicting clause");
    kani::cover!(N < 2 || (!conflict && states[CANDS[0]] == 2), "first candidate false, a later one watched");
    kani::cover!(states[PARENT] == 1, "parent already installed");
    std::mem::forget(t);
}

#[kani::proof]
#[kani::unwind(8)]
fn k5_requires_0() {
    let states = any_states();
    let t = tracker_with(&states);
    let parent = VariableId::from_usize(PARENT);
    let req = Requirement::Single(VersionSetId(kani::any()));
    let (w, conflict, kind) = WatchedLiterals::requires(parent, req, std::iter::empty(), &t);
    assert!(matches!(kind, Clause::Requires(p, r) if p == parent && r == req));
    assert!(w.is_none() && !conflict);
    kani::cover!(states[PARENT] == 1, "parent already installed");
    std::mem::forget(t);
}

#[kani::proof]
#[kani::unwind(8)]
fn k5_requires_1() {
    requires_case::<1>();
}

#[kani::proof]
#[kani::unwind(8)]
fn k5_requires_2() {
    requires_case::<2>();
}

#[kani::proof]
#[kani::unwind(8)]
fn k5_requires_3() {
    requires_case::<3>();
}

#[kani::proof]
#[kani::unwind(8)]
fn k5_constrains() {
    let states = any_states();
    let t = tracker_with(&states);
    let parent = VariableId::from_usize(PARENT);
    let forbidden = VariableId::from_usize(CANDS[0]);
    let via = VersionSetId(kani::any());
    let (w, conflict, kind) = WatchedLiterals::constrains(parent, forbidden, via, &t);
    assert!(matches!(kind, Clause::Constrains(p, f, v) if p == parent && f == forbidden && v == via));
    assert!(conflict == (states[CANDS[0]] == 1), "conflict exactly when the forbidden solvable is already installed");
    let w = w.unwrap();
    assert!(w.watched_literals == [parent.negative(), forbidden.negative()]);
    kani::cover!(conflict, "conflicting clause");
    kani::cover!(!conflict && states[CANDS[0]] == 2, "forbidden already false");
    std::mem::forget(t);
}

#[kani::proof]
#[kani::unwind(8)]
fn k5_twin_must_fail() {
    let states = any_states();
    let t = tracker_with(&states);
    let parent = VariableId::from_usize(PARENT);
    let cands = [VariableId::from_usize(2), VariableId::from_usize(3)];
    let (_w, conflict, _k) =
        WatchedLiterals::requires(parent, Requirement::Single(VersionSetId(0)), cands.iter().copied(), &t);
    assert!(!conflict, "vacuity witness");
    std::mem::forget(t);
}
