// C18 — SmallVec (the container behind version-set unions) vs. a reference array.
// Attached as a child module of `crate::internal::small_vec`.
use super::*;

struct Model {
    v: [u32; 5],
    n: usize,
}

fn check(sv: &SmallVec<u32>, m: &Model) {
    let s = sv.as_slice();
    assert!(s.len() == m.n, "length agrees with the model");
    let mut i = 0;
    while i < 5 {
        if i < m.n {
            assert!(s[i] == m.v[i], "element agrees with the model");
        }
        i += 1;
    }
    assert!(sv.len() == m.n); // through Deref
}

/// kind: 0 push(any), 1 pop, 2 clear
fn apply(sv: &mut SmallVec<u32>, m: &mut Model, kind: u8) {
    match kind {
        0 => {
            let x: u32 = kani::any();
            sv.push(x);
            m.v[m.n] = x;
            m.n += 1;
        }
        1 => {
            let got = sv.pop();
            if m.n == 0 {
                assert!(got.is_none(), "pop on empty returns None");
            } else {
                m.n -= 1;
                assert!(got == Some(m.v[m.n]), "pop returns the last pushed element");
            }
        }
        _ => {
            sv.clear();
            m.n = 0;
        }
    }
}

fn seq<const N: usize>(kinds: [u8; N]) {
    let mut sv: SmallVec<u32> = SmallVec::empty();
    let mut m = Model { v: [0; 5], n: 0 };
    check(&sv, &m);
    let mut i = 0;
    while i < N {
        apply(&mut sv, &mut m, kinds[i]);
        check(&sv, &m);
        i += 1;
    }
    // equality/clone follow the slice contents
    let c = sv.clone();
    assert!(c == sv);
    check(&c, &m);
    kani::cover!(true, "reached");
    std::mem::forget(sv);
    std::mem::forget(c);
}

#[kani::proof]
#[kani::unwind(8)]
fn c18_sv_twin_must_fail() {
    let mut sv: SmallVec<u32> = SmallVec::empty();
    sv.push(kani::any());
    sv.push(kani::any());
    sv.push(kani::any());
    assert!(sv.as_slice().len() == 2, "vacuity witness");
    std::mem::forget(sv);
}

/// symbolic operation kinds: only while the vector stays inline (<= 2 elements, no heap Vec): 2 steps
#[kani::proof]
#[kani::unwind(8)]
fn c18_sv_symbolic_kinds_inline() {
    let k0: u8 = kani::any();
    let k1: u8 = kani::any();
    kani::assume(k0 < 3 && k1 < 3);
    let mut sv: SmallVec<u32> = SmallVec::empty();
    let mut m = Model { v: [0; 5], n: 0 };
    apply(&mut sv, &mut m, k0);
    check(&sv, &m);
    apply(&mut sv, &mut m, k1);
    check(&sv, &m);
    kani::cover!(m.n == 2, "two pushes");
    kani::cover!(m.n == 0 && k0 == 0, "push then removed");
}

// ---- generated instances (operation-kind sequences) follow ----------------------------------------
