// C04 — panic-freedom of the clause constructors under preconditions the public API can establish.
// Attached as a child module of `crate::solver::clause`.
use super::*;
use crate::internal::arena::ArenaId;
use crate::internal::id::{LearntClauseId, StringId, VersionSetId};
use crate::solver::decision_tracker::DecisionTracker;

const MAX_VAR: u32 = 1 << 20;

fn any_var() -> VariableId {
    let v: u32 = kani::any();
    kani::assume(v < MAX_VAR);
    VariableId::from_usize(v as usize)
}

/// A solvable may constrain ANY other solvable of the universe: nothing but `parent != forbidden`
/// is assumed.  Must not panic (debug_assert included) and must return a watched binary clause.
#[kani::proof]
#[kani::unwind(4)]
fn c04_constrains_distinct() {
    let tracker = DecisionTracker::default();
    let (a, b) = (any_var(), any_var());
    kani::assume(a != b);
    let (w, conflict, _kind) = WatchedLiterals::constrains(a, b, VersionSetId(kani::any()), &tracker);
    assert!(w.is_some() && !conflict);
    kani::cover!(a.is_root(), "root constraint");
    kani::cover!(b.is_root(), "constraint on the root variable");
}

/// A solvable whose `constrains` entry excludes the solvable itself (a=1 constrains `a 2`): the encoder
/// calls constrains(p, p).  The provider is well-formed, so this must not panic either.
#[kani::proof]
#[kani::unwind(4)]
fn c04_constrains_self() {
    let tracker = DecisionTracker::default();
    let a = any_var();
    let (_w, _conflict, kind) = WatchedLiterals::constrains(a, a, VersionSetId(kani::any()), &tracker);
    assert!(matches!(kind, Clause::Constrains(p, f, _) if p == a && f == a));
    kani::cover!(true, "reached");
}

/// Reachability probe: requires()/constrains() with a parent that is already assigned false.  The
/// constructors assert that this never happens (and the repository's unit tests pin that panic), so the
/// question is whether the encoder can get there; the check answers it with a public-API witness.
#[kani::proof]
#[kani::unwind(4)]
fn c04_probe_parent_false() {
    let mut tracker = DecisionTracker::default();
    let parent = VariableId::from_usize(1);
    let cand = VariableId::from_usize(2);
    let value: bool = kani::any();
    let level: u32 = kani::any();
    kani::assume(level >= 1 && level <= 1000);
    let _ = tracker.try_add_decision(crate::solver::decision::Decision::new(parent, value, crate::internal::id::ClauseId::install_root()), level);
    let which: bool = kani::any();
    if which {
        let _ = WatchedLiterals::requires(parent, Requirement::Single(VersionSetId(0)), [cand], &tracker);
    } else {
        let _ = WatchedLiterals::constrains(parent, cand, VersionSetId(0), &tracker);
    }
    kani::cover!(value, "parent installed");
}

/// forbid_multiple / lock / exclude / root / learnt under what the encoder and analyze() guarantee:
/// helper variables are fresh (differ from the candidate), locked-out candidates are never the root,
/// learnt clauses have pairwise distinct variables.
#[kani::proof]
#[kani::unwind(8)]
fn c04_other_constructors() {
    let a = any_var();
    let h = Literal::new(any_var(), kani::any());
    kani::assume(h.variable() != a);
    let (w, _) = WatchedLiterals::forbid_multiple(a, h, NameId(kani::any()));
    assert!(w.is_some());
    let (locked, other) = (any_var(), any_var());
    kani::assume(!other.is_root() && locked != other);
    let (w, _) = WatchedLiterals::lock(locked, other);
    assert!(w.is_some());
    let (w, _) = WatchedLiterals::exclude(a, StringId(kani::any()));
    assert!(w.is_none());
    let (w, _) = WatchedLiterals::root();
    assert!(w.is_none());
    let l0 = Literal::new(any_var(), kani::any());
    let l1 = Literal::new(any_var(), kani::any());
    let l2 = Literal::new(any_var(), kani::any());
    kani::assume(l0.variable() != l1.variable() && l1.variable() != l2.variable() && l0.variable() != l2.variable());
    let id = LearntClauseId::from_usize(kani::any::<u16>() as usize);
    assert!(WatchedLiterals::learnt(id, &[l0]).0.is_none());
    assert!(WatchedLiterals::learnt(id, &[l0, l1]).0.is_some());
    assert!(WatchedLiterals::learnt(id, &[l0, l1, l2]).0.is_some());
    kani::cover!(h.negate(), "negative helper literal");
}

#[kani::proof]
#[kani::unwind(4)]
fn c04_twin_must_fail() {
    let tracker = DecisionTracker::default();
    let (a, b) = (any_var(), any_var());
    kani::assume(a != b);
    let (w, _c, _k) = WatchedLiterals::constrains(a, b, VersionSetId(0), &tracker);
    assert!(w.is_none(), "vacuity witness");
}
