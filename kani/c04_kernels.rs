// C04 — panic-freedom of the clause constructors under preconditions the public API can establish.
// Attached as a child module of `crate::solver::clause`.
use super::*;
use crate::internal::arena::ArenaId;
use crate::internal::id::{LearntClauseId, StringId, VersionSetId};
use crate::solver::decision_tracker::DecisionTracker;

const MAX_VAR: u32 = 1 << 20;

fn any_var() -> VariableId {
    let v: u32 = kani::any();
    kani::assume(v < MAX_VAR);
    VariableId::from_usize(v as usize)
}

/// A solvable may constrain ANY other solvable of the universe: nothing but `parent != forbidden`
/// is assumed.  Must not panic (debug_assert included) and must return a watched binary clause.
#[kani::proof]
#[kani::unwind(4)]
fn c04_constrains_distinct() {
    let tracker = DecisionTracker::default();
    let (a, b) = (any_var(), any_var());
    kani::assume(a != b);
    let (w, conflict, _kind) = WatchedLiterals::constrains(a, b, VersionSetId(kani::any()), &tracker);
    assert!(w.is_some() && !conflict);
    kani::cover!(a.is_root(), "root constraint");
    kani::cover!(b.is_root(), "constraint on the root variable");
}

/// A solvable whose `constrains` entry excludes the solvable itself (a=1 constrains `a 2`): the encoder
/// calls constrains(p, p).  The provider is well-formed, so this must not panic either.
#[kani::proof]
#[kani::unwind(4)]
fn c04_constrains_self() {
    let tracker = DecisionTracker::default();
    let a = any_var();
    let (_w, _conflict, kind) = WatchedLiterals::constrains(a, a, VersionSetId(kani::any()), &tracker);
    assert!(matches!(kind, Clause::Constrains(p, f, _) if p == a && f == a));
    kani::cover!(true, "reached");
}

/// forbid_multiple / lock / exclude / root / learnt under what the encoder and analyze() guarantee:
/// helper variables are fresh (differ from the candidate), locked-out candidates are never the root,
/// learnt clauses have pairwise distinct variables.
#[kani::proof]
#[kani::unwind(8)]
fn c04_other_constructors() {
    let a = any_var();
    let h = Literal::new(any_var(), kani::any());
    kani::assume(h.variable() != a);
    let (w, _) = WatchedLiterals::forbid_multiple(a, h, NameId(kani::any()));
    assert!(w.is_some());
    let (locked, other) = (any_var(), any_var());
    kani::assume(!other.is_root() && locked != other);
    let (w, _) = WatchedLiterals::lock(locked, other);
    assert!(w.is_some());
    let (w, _) = WatchedLiterals::exclude(a, StringId(kani::any()));
    assert!(w.is_none());
    let (w, _) = WatchedLiterals::root();
    assert!(w.is_none());
    let l0 = Literal::new(any_var(), kani::any());
    let l1 = Literal::new(any_var(), kani::any());
    let l2 = Literal::new(any_var(), kani::any());
    kani::assume(l0.variable() != l1.variable() && l1.variable() != l2.variable() && l0.variable() != l2.variable());
    let id = LearntClauseId::from_usize(kani::any::<u16>() as usize);
    assert!(WatchedLiterals::learnt(id, &[l0]).0.is_none());
    assert!(WatchedLiterals::learnt(id, &[l0, l1]).0.is_some());
    assert!(WatchedLiterals::learnt(id, &[l0, l1, l2]).0.is_some());
    kani::cover!(h.negate(), "negative helper literal");
}

#[kani::proof]
#[kani::unwind(4)]
fn c04_twin_must_fail() {
    let tracker = DecisionTracker::default();
    let (a, b) = (any_var(), any_var());
    kani::assume(a != b);
    let (w, _c, _k) = WatchedLiterals::constrains(a, b, VersionSetId(0), &tracker);
    assert!(w.is_none(), "vacuity witness");
}
