// C01/K2 — what a clause means (visit_literals) vs. what its constructor watches.
// Attached as a child module of `crate::solver::clause`.
use super::*;
use crate::internal::arena::ArenaId;
use crate::internal::id::{LearntClauseId, StringId, VersionSetId};
use crate::solver::decision_tracker::DecisionTracker;

const MAX_VAR: u32 = 1 << 20;

fn stub_random_state() -> ahash::RandomState {
    ahash::RandomState::with_seeds(1, 2, 3, 4)
}

fn any_var() -> VariableId {
    let v: u32 = kani::any();
    kani::assume(v < MAX_VAR);
    VariableId::from_usize(v as usize)
}

fn any_lit() -> Literal {
    Literal::new(any_var(), kani::any())
}

type ReqMap = FrozenMap<Requirement, Vec<Vec<VariableId>>, ahash::RandomState>;

/// Drop glue of the containers is not the subject and is expensive to encode: leak them.
fn forget2(a: Arena<LearntClauseId, Vec<Literal>>, b: ReqMap) {
    std::mem::forget(a);
    std::mem::forget(b);
}

struct Lits {
    l: [Option<Literal>; 6],
    n: usize,
}

fn literals_of(clause: &Clause, learnt: &Arena<LearntClauseId, Vec<Literal>>, req: &ReqMap) -> Lits {
    let mut out = Lits { l: [None; 6], n: 0 };
    clause.visit_literals(learnt, req, |lit| {
        assert!(out.n < 6);
        out.l[out.n] = Some(lit);
        out.n += 1;
    });
    out
}

fn member(l: &Lits, x: Literal) -> bool {
    let mut found = false;
    let mut i = 0;
    while i < 6 {
        if i < l.n && l.l[i] == Some(x) {
            found = true;
        }
        i += 1;
    }
    found
}

fn check_binary(w: Option<WatchedLiterals>, lits: &Lits, x: Literal, y: Literal) {
    // the clause is exactly {x, y}
    assert!(lits.n == 2);
    assert!(member(lits, x) && member(lits, y));
    assert!(lits.l[0] != lits.l[1]);
    // and the watches are two distinct members of it
    let w = w.unwrap();
    assert!(w.watched_literals[0] != w.watched_literals[1]);
    assert!(member(lits, w.watched_literals[0]) && member(lits, w.watched_literals[1]));
    assert!(w.next_watches[0].is_none() && w.next_watches[1].is_none());
}

#[kani::proof]
#[kani::unwind(8)]
#[kani::stub(ahash::RandomState::new, stub_random_state)]
fn k2_constrains() {
    let learnt: Arena<LearntClauseId, Vec<Literal>> = Arena::new();
    let req: ReqMap = FrozenMap::default();
    let tracker = DecisionTracker::default();
    let (a, b) = (any_var(), any_var());
    kani::assume(a != b);
    let via = VersionSetId(kani::any());
    let (w, conflict, clause) = WatchedLiterals::constrains(a, b, via, &tracker);
    assert!(!conflict);
    assert!(matches!(clause, Clause::Constrains(p, f, v) if p == a && f == b && v == via));
    let lits = literals_of(&clause, &learnt, &req);
    check_binary(w, &lits, a.negative(), b.negative());
    kani::cover!(a.is_root(), "parent is the root");
    kani::cover!(!a.is_root() && !b.is_root(), "two ordinary solvables");
    forget2(learnt, req);
}

#[kani::proof]
#[kani::unwind(8)]
#[kani::stub(ahash::RandomState::new, stub_random_state)]
fn k2_forbid_multiple() {
    let learnt: Arena<LearntClauseId, Vec<Literal>> = Arena::new();
    let req: ReqMap = FrozenMap::default();
    let a = any_var();
    let h = any_lit(); // helper-variable literal of either polarity
    kani::assume(h.variable() != a);
    let name = NameId(kani::any());
    let (w, clause) = WatchedLiterals::forbid_multiple(a, h, name);
    assert!(matches!(clause, Clause::ForbidMultipleInstances(p, l, n) if p == a && l == h && n == name));
    let lits = literals_of(&clause, &learnt, &req);
    check_binary(w, &lits, a.negative(), h);
    kani::cover!(h.negate(), "negative helper literal");
    kani::cover!(!h.negate(), "positive helper literal");
    forget2(learnt, req);
}

#[kani::proof]
#[kani::unwind(8)]
#[kani::stub(ahash::RandomState::new, stub_random_state)]
fn k2_lock() {
    let learnt: Arena<LearntClauseId, Vec<Literal>> = Arena::new();
    let req: ReqMap = FrozenMap::default();
    let (locked, other) = (any_var(), any_var());
    kani::assume(!other.is_root() && !locked.is_root() && locked != other);
    let (w, clause) = WatchedLiterals::lock(locked, other);
    assert!(matches!(clause, Clause::Lock(l, o) if l == locked && o == other));
    let lits = literals_of(&clause, &learnt, &req);
    // (¬root ∨ ¬other): the locked candidate itself is NOT part of the clause
    check_binary(w, &lits, VariableId::root().negative(), other.negative());
    assert!(!member(&lits, locked.negative()) && !member(&lits, locked.positive()));
    kani::cover!(true, "reached");
    forget2(learnt, req);
}

#[kani::proof]
#[kani::unwind(8)]
#[kani::stub(ahash::RandomState::new, stub_random_state)]
fn k2_excluded_and_root() {
    let learnt: Arena<LearntClauseId, Vec<Literal>> = Arena::new();
    let req: ReqMap = FrozenMap::default();
    let a = any_var();
    let (w, clause) = WatchedLiterals::exclude(a, StringId(kani::any()));
    assert!(w.is_none());
    assert!(matches!(clause, Clause::Excluded(p, _) if p == a));
    let lits = literals_of(&clause, &learnt, &req);
    assert!(lits.n == 1 && lits.l[0] == Some(a.negative()));
    let (w, clause) = WatchedLiterals::root();
    assert!(w.is_none());
    assert!(matches!(clause, Clause::InstallRoot));
    kani::cover!(true, "reached");
    forget2(learnt, req);
}

fn learnt_n<const N: usize>() {
    let learnt: Arena<LearntClauseId, Vec<Literal>> = Arena::new();
    let req: ReqMap = FrozenMap::default();
    let mut v: Vec<Literal> = Vec::with_capacity(N);
    let mut i = 0;
    while i < N {
        v.push(any_lit());
        i += 1;
    }
    // learnt clauses never repeat a variable (analyze() deduplicates through `seen`)
    if N >= 2 {
        kani::assume(v[0].variable() != v[N - 1].variable());
    }
    let copy: [Option<Literal>; 4] = [
        v.get(0).copied(),
        v.get(1).copied(),
        v.get(2).copied(),
        v.get(3).copied(),
    ];
    let id = learnt.alloc(v);
    let (w, clause) = WatchedLiterals::learnt(id, &learnt[id]);
    assert!(matches!(clause, Clause::Learnt(_)));
    let lits = literals_of(&clause, &learnt, &req);
    assert!(lits.n == N);
    let mut i = 0;
    while i < N {
        assert!(lits.l[i] == copy[i]); // exactly the stored literals, in order
        i += 1;
    }
    if N == 1 {
        assert!(w.is_none());
    } else {
        let w = w.unwrap();
        assert!(w.watched_literals[0] != w.watched_literals[1]);
        assert!(member(&lits, w.watched_literals[0]) && member(&lits, w.watched_literals[1]));
    }
    kani::cover!(true, "reached");
    forget2(learnt, req);
}

#[kani::proof]
#[kani::unwind(8)]
#[kani::stub(ahash::RandomState::new, stub_random_state)]
fn k2_learnt_1() {
    learnt_n::<1>();
}

#[kani::proof]
#[kani::unwind(8)]
#[kani::stub(ahash::RandomState::new, stub_random_state)]
fn k2_learnt_2() {
    learnt_n::<2>();
}

#[kani::proof]
#[kani::unwind(8)]
#[kani::stub(ahash::RandomState::new, stub_random_state)]
fn k2_learnt_3() {
    learnt_n::<3>();
}

#[kani::proof]
#[kani::unwind(8)]
#[kani::stub(ahash::RandomState::new, stub_random_state)]
fn k2_learnt_4() {
    learnt_n::<4>();
}

#[kani::proof]
#[kani::unwind(8)]
#[kani::stub(ahash::RandomState::new, stub_random_state)]
fn k2_twin_must_fail() {
    let learnt: Arena<LearntClauseId, Vec<Literal>> = Arena::new();
    let req: ReqMap = FrozenMap::default();
    let tracker = DecisionTracker::default();
    let (a, b) = (any_var(), any_var());
    kani::assume(a != b);
    let (_w, _c, clause) = WatchedLiterals::constrains(a, b, VersionSetId(0), &tracker);
    let lits = literals_of(&clause, &learnt, &req);
    assert!(lits.n != 2, "vacuity witness");
    forget2(learnt, req);
}
