// C19 (serde kernel) — the real Serialize / Deserialize impls of Mapping driven by a minimal in-memory
// Serializer / Deserializer pair (a sequence of Option<u32>; no JSON text, no formatting).
// Attached as a child module of `crate::internal::mapping` (feature "serde"); VALUES_PER_CHUNK scaled to 4.
use super::*;
use crate::internal::id::NameId;
use serde::de::{DeserializeSeed, SeqAccess, Visitor};
use serde::ser::{Impossible, SerializeSeq};
use serde::{Deserialize, Deserializer, Serialize, Serializer};

const A: [u32; 6] = [0, 1, 3, 4, 5, 9];
const CAP: usize = 12;

#[derive(Debug)]
struct E;
impl std::fmt::Display for E {
    fn fmt(&self, _f: &mut std::fmt::Formatter<'_>) -> std::fmt::Result {
        Ok(())
    }
}
impl std::error::Error for E {}
impl serde::ser::Error for E {
    fn custom<T: std::fmt::Display>(_msg: T) -> Self {
        E
    }
}
impl serde::de::Error for E {
    fn custom<T: std::fmt::Display>(_msg: T) -> Self {
        E
    }
}

/// The "wire": a bounded sequence of optional u32.
struct Wire {
    items: [Option<u32>; CAP],
    n: usize,
}

// ---------------- serializer -----------------------------------------------------------------------
struct SeqSer<'w> {
    w: &'w mut Wire,
}
struct ElemSer<'w> {
    w: &'w mut Wire,
}

macro_rules! unsupported {
    ($($name:ident($($t:ty),*)),* $(,)?) => {
        $(fn $name(self $(, _: $t)*) -> Result<Self::Ok, E> { Err(E) })*
    };
}

impl<'w> Serializer for SeqSer<'w> {
    type Ok = ();
    type Error = E;
    type SerializeSeq = SeqSer<'w>;
    type SerializeTuple = Impossible<(), E>;
    type SerializeTupleStruct = Impossible<(), E>;
    type SerializeTupleVariant = Impossible<(), E>;
    type SerializeMap = Impossible<(), E>;
    type SerializeStruct = Impossible<(), E>;
    type SerializeStructVariant = Impossible<(), E>;
    fn serialize_seq(self, _len: Option<usize>) -> Result<Self::SerializeSeq, E> {
        Ok(self)
    }
    unsupported!(serialize_bool(bool), serialize_i8(i8), serialize_i16(i16), serialize_i32(i32), serialize_i64(i64),
        serialize_u8(u8), serialize_u16(u16), serialize_u32(u32), serialize_u64(u64), serialize_f32(f32),
        serialize_f64(f64), serialize_char(char), serialize_str(&str), serialize_bytes(&[u8]), serialize_none(),
        serialize_unit(), serialize_unit_struct(&'static str), serialize_unit_variant(&'static str, u32, &'static str));
    fn serialize_some<T: ?Sized + Serialize>(self, _v: &T) -> Result<(), E> { Err(E) }
    fn serialize_newtype_struct<T: ?Sized + Serialize>(self, _n: &'static str, _v: &T) -> Result<(), E> { Err(E) }
    fn serialize_newtype_variant<T: ?Sized + Serialize>(self, _n: &'static str, _i: u32, _v: &'static str, _x: &T) -> Result<(), E> { Err(E) }
    fn serialize_tuple(self, _l: usize) -> Result<Self::SerializeTuple, E> { Err(E) }
    fn serialize_tuple_struct(self, _n: &'static str, _l: usize) -> Result<Self::SerializeTupleStruct, E> { Err(E) }
    fn serialize_tuple_variant(self, _n: &'static str, _i: u32, _v: &'static str, _l: usize) -> Result<Self::SerializeTupleVariant, E> { Err(E) }
    fn serialize_map(self, _l: Option<usize>) -> Result<Self::SerializeMap, E> { Err(E) }
    fn serialize_struct(self, _n: &'static str, _l: usize) -> Result<Self::SerializeStruct, E> { Err(E) }
    fn serialize_struct_variant(self, _n: &'static str, _i: u32, _v: &'static str, _l: usize) -> Result<Self::SerializeStructVariant, E> { Err(E) }
}

impl<'w> SerializeSeq for SeqSer<'w> {
    type Ok = ();
    type Error = E;
    fn serialize_element<T: ?Sized + Serialize>(&mut self, value: &T) -> Result<(), E> {
        value.serialize(ElemSer { w: &mut *self.w })
    }
    fn end(self) -> Result<(), E> {
        Ok(())
    }
}

impl<'w> Serializer for ElemSer<'w> {
    type Ok = ();
    type Error = E;
    type SerializeSeq = Impossible<(), E>;
    type SerializeTuple = Impossible<(), E>;
    type SerializeTupleStruct = Impossible<(), E>;
    type SerializeTupleVariant = Impossible<(), E>;
    type SerializeMap = Impossible<(), E>;
    type SerializeStruct = Impossible<(), E>;
    type SerializeStructVariant = Impossible<(), E>;
    fn serialize_none(self) -> Result<(), E> {
        if self.w.n >= CAP {
            return Err(E);
        }
        self.w.items[self.w.n] = None;
        self.w.n += 1;
        Ok(())
    }
    fn serialize_some<T: ?Sized + Serialize>(self, v: &T) -> Result<(), E> {
        v.serialize(self)
    }
    fn serialize_u32(self, v: u32) -> Result<(), E> {
        if self.w.n >= CAP {
            return Err(E);
        }
        self.w.items[self.w.n] = Some(v);
        self.w.n += 1;
        Ok(())
    }
    unsupported!(serialize_bool(bool), serialize_i8(i8), serialize_i16(i16), serialize_i32(i32), serialize_i64(i64),
        serialize_u8(u8), serialize_u16(u16), serialize_u64(u64), serialize_f32(f32),
        serialize_f64(f64), serialize_char(char), serialize_str(&str), serialize_bytes(&[u8]),
        serialize_unit(), serialize_unit_struct(&'static str), serialize_unit_variant(&'static str, u32, &'static str));
    fn serialize_newtype_struct<T: ?Sized + Serialize>(self, _n: &'static str, _v: &T) -> Result<(), E> { Err(E) }
    fn serialize_newtype_variant<T: ?Sized + Serialize>(self, _n: &'static str, _i: u32, _v: &'static str, _x: &T) -> Result<(), E> { Err(E) }
    fn serialize_seq(self, _l: Option<usize>) -> Result<Self::SerializeSeq, E> { Err(E) }
    fn serialize_tuple(self, _l: usize) -> Result<Self::SerializeTuple, E> { Err(E) }
    fn serialize_tuple_struct(self, _n: &'static str, _l: usize) -> Result<Self::SerializeTupleStruct, E> { Err(E) }
    fn serialize_tuple_variant(self, _n: &'static str, _i: u32, _v: &'static str, _l: usize) -> Result<Self::SerializeTupleVariant, E> { Err(E) }
    fn serialize_map(self, _l: Option<usize>) -> Result<Self::SerializeMap, E> { Err(E) }
    fn serialize_struct(self, _n: &'static str, _l: usize) -> Result<Self::SerializeStruct, E> { Err(E) }
    fn serialize_struct_variant(self, _n: &'static str, _i: u32, _v: &'static str, _l: usize) -> Result<Self::SerializeStructVariant, E> { Err(E) }
}

// ---------------- deserializer ---------------------------------------------------------------------
struct SeqDe<'w> {
    w: &'w Wire,
}
struct Access<'w> {
    w: &'w Wire,
    i: usize,
}
struct ElemDe {
    v: Option<u32>,
}
struct U32De {
    v: u32,
}

impl<'de, 'w> Deserializer<'de> for SeqDe<'w> {
    type Error = E;
    fn deserialize_any<V: Visitor<'de>>(self, visitor: V) -> Result<V::Value, E> {
        visitor.visit_seq(Access { w: self.w, i: 0 })
    }
    serde::forward_to_deserialize_any! {
        bool i8 i16 i32 i64 i128 u8 u16 u32 u64 u128 f32 f64 char str string bytes byte_buf option unit
        unit_struct newtype_struct seq tuple tuple_struct map struct enum identifier ignored_any
    }
}

impl<'de, 'w> SeqAccess<'de> for Access<'w> {
    type Error = E;
    fn next_element_seed<T: DeserializeSeed<'de>>(&mut self, seed: T) -> Result<Option<T::Value>, E> {
        if self.i >= self.w.n {
            return Ok(None);
        }
        let v = self.w.items[self.i];
        self.i += 1;
        seed.deserialize(ElemDe { v }).map(Some)
    }
    fn size_hint(&self) -> Option<usize> {
        Some(self.w.n - self.i)
    }
}

impl<'de> Deserializer<'de> for ElemDe {
    type Error = E;
    fn deserialize_any<V: Visitor<'de>>(self, visitor: V) -> Result<V::Value, E> {
        match self.v {
            None => visitor.visit_none(),
            Some(v) => visitor.visit_some(U32De { v }),
        }
    }
    serde::forward_to_deserialize_any! {
        bool i8 i16 i32 i64 i128 u8 u16 u32 u64 u128 f32 f64 char str string bytes byte_buf option unit
        unit_struct newtype_struct seq tuple tuple_struct map struct enum identifier ignored_any
    }
}

impl<'de> Deserializer<'de> for U32De {
    type Error = E;
    fn deserialize_any<V: Visitor<'de>>(self, visitor: V) -> Result<V::Value, E> {
        visitor.visit_u32(self.v)
    }
    serde::forward_to_deserialize_any! {
        bool i8 i16 i32 i64 i128 u8 u16 u32 u64 u128 f32 f64 char str string bytes byte_buf option unit
        unit_struct newtype_struct seq tuple tuple_struct map struct enum identifier ignored_any
    }
}

// ---------------- harness --------------------------------------------------------------------------
fn pos_of(key: u32) -> usize {
    let mut i = 0;
    while i < 6 {
        if A[i] == key {
            return i;
        }
        i += 1;
    }
    unreachable!()
}

/// Serialize half: inserts on the concrete keys (symbolic values), then every key is symbolically kept or
/// unset; the real Serialize impl must emit a sequence in which position i holds exactly get(i), long
/// enough to contain every stored id.
fn ser_case<const K: usize>(keys: [u32; K]) {
    let mut m: Mapping<NameId, u32> = Mapping::default();
    let mut model: [Option<u32>; 6] = [None; 6];
    let mut i = 0;
    while i < K {
        let v: u32 = kani::any();
        m.insert(NameId(keys[i]), v);
        model[pos_of(keys[i])] = Some(v);
        i += 1;
    }
    let mut unsets = 0;
    let mut i = 0;
    while i < K {
        let drop_it: bool = kani::any();
        if drop_it {
            m.unset(NameId(keys[i]));
            model[pos_of(keys[i])] = None;
            unsets += 1;
        }
        i += 1;
    }
    let mut wire = Wire { items: [None; CAP], n: 0 };
    let r = m.serialize(SeqSer { w: &mut wire });
    assert!(r.is_ok(), "serialisation succeeds");
    let mut i = 0;
    while i < 6 {
        let id = A[i] as usize;
        if model[i].is_some() {
            assert!(id < wire.n, "every stored id is inside the serialised sequence");
        }
        if id < wire.n {
            assert!(wire.items[id] == model[i], "position i of the sequence holds the value stored under id i");
        }
        i += 1;
    }
    // positions of ids that were never stored are empty
    let mut j = 0;
    while j < CAP {
        if j < wire.n && j != 0 && j != 1 && j != 3 && j != 4 && j != 5 && j != 9 {
            assert!(wire.items[j].is_none());
        }
        j += 1;
    }
    kani::cover!(unsets == 0, "nothing unset before serialising");
    kani::cover!(unsets == K, "everything unset before serialising");
    std::mem::forget(m);
}

/// Deserialize half: an arbitrary sequence of N optional values (symbolic, holes anywhere) through the real
/// Deserialize impl: id i maps to exactly the value at position i; len counts the present ones.
fn de_case<const N: usize>() {
    let mut wire = Wire { items: [None; CAP], n: N };
    let mut present = 0;
    let mut i = 0;
    while i < N {
        let some: bool = kani::any();
        if some {
            wire.items[i] = Some(kani::any());
            present += 1;
        }
        i += 1;
    }
    let back: Result<Mapping<NameId, u32>, E> = Mapping::deserialize(SeqDe { w: &wire });
    assert!(back.is_ok(), "deserialisation succeeds");
    let back = back.unwrap();
    let mut i = 0;
    while i < N {
        assert!(back.get(NameId(i as u32)).copied() == wire.items[i], "id i maps to the value at position i");
        i += 1;
    }
    assert!(back.get(NameId(N as u32)).is_none() && back.get(NameId(N as u32 + 4)).is_none());
    assert!(back.len() == present, "len counts the present entries");
    assert!(back.is_empty() == (present == 0));
    kani::cover!(N < 2 || (wire.items[0].is_none() && wire.items[N - 1].is_some()), "hole before the last entry");
    kani::cover!(present == N, "dense");
    std::mem::forget(back);
}

#[kani::proof]
#[kani::unwind(16)]
fn c19_serde_twin_must_fail() {
    let mut m: Mapping<NameId, u32> = Mapping::default();
    m.insert(NameId(5), kani::any());
    let mut wire = Wire { items: [None; CAP], n: 0 };
    let _ = m.serialize(SeqSer { w: &mut wire });
    assert!(wire.n != 6, "vacuity witness");
    std::mem::forget(m);
}

// ---- generated instances follow -------------------------------------------------------------------
