// C19 — Mapping vs. an association-list model.  Attached as a child module of
// `crate::internal::mapping`; only the public API of `Mapping` is used.
// VALUES_PER_CHUNK is scaled to 4 in the scratch copy (DESIGN 2.1), so the alphabet
// A = {0,1,3,4,5,9} covers: first slot, inside chunk 0, last slot of chunk 0, first slot of
// chunk 1, inside chunk 1, chunk 2.
use super::*;
use crate::internal::id::NameId;

const A: [u32; 6] = [0, 1, 3, 4, 5, 9];
const BEYOND: [u32; 2] = [12, 40]; // first id past a 3-chunk mapping, and a far one

fn pos_of(key: u32) -> usize {
    let mut i = 0;
    while i < 6 {
        if A[i] == key {
            return i;
        }
        i += 1;
    }
    unreachable!()
}

type Model = [Option<u32>; 6];

fn model_len(model: &Model) -> usize {
    let mut n = 0;
    let mut i = 0;
    while i < 6 {
        if model[i].is_some() {
            n += 1;
        }
        i += 1;
    }
    n
}

/// One symbolic-kind step (insert or unset) on a concrete key: return value must match the model.
fn step(m: &mut Mapping<NameId, u32>, model: &mut Model, key: u32) -> bool {
    let p = pos_of(key);
    let is_insert: bool = kani::any();
    if is_insert {
        let v: u32 = kani::any();
        let prev = m.insert(NameId(key), v);
        assert!(prev == model[p], "insert returns the previous value");
        model[p] = Some(v);
    } else {
        let prev = m.unset(NameId(key));
        assert!(prev == model[p], "unset returns the previous value");
        model[p] = None;
    }
    is_insert
}

fn observe(m: &Mapping<NameId, u32>, model: &Model) {
    let mut i = 0;
    while i < 6 {
        assert!(m.get(NameId(A[i])).copied() == model[i], "get agrees with the model");
        i += 1;
    }
    assert!(m.get(NameId(BEYOND[0])).is_none() && m.get(NameId(BEYOND[1])).is_none());
    // an id of the alphabet's chunks that was never touched
    assert!(m.get(NameId(2)).is_none() && m.get(NameId(7)).is_none());
    let n = model_len(model);
    assert!(m.len() == n, "len agrees with the model");
    assert!(m.is_empty() == (n == 0), "is_empty agrees with the model");
}

/// Drives iter() with exactly `calls` explicit next() calls (calls > number of stored pairs).
fn observe_iter(m: &Mapping<NameId, u32>, model: &Model, calls: usize) {
    let mut it = m.iter();
    let mut pos = 0usize;
    let mut c = 0;
    while c < calls {
        while pos < 6 && model[pos].is_none() {
            pos += 1;
        }
        let got = it.next();
        if pos < 6 {
            match got {
                Some((id, v)) => {
                    assert!(id == NameId(A[pos]), "iter yields ids in ascending order, none skipped");
                    assert!(Some(*v) == model[pos], "iter yields the stored value");
                }
                None => assert!(false, "iter ended before yielding every stored pair"),
            }
            pos += 1;
        } else {
            assert!(got.is_none(), "iter yields nothing beyond the stored pairs");
        }
        c += 1;
    }
}

/// Family (a): pre-sized mapping (3 chunks, no growth possible for ids < 12); K symbolic-kind steps.
fn family_a<const K: usize>(keys: [u32; K]) {
    let mut m: Mapping<NameId, u32> = Mapping::with_capacity(12);
    let mut model: Model = [None; 6];
    observe(&m, &model);
    let mut inserts = 0;
    let mut i = 0;
    while i < K {
        if step(&mut m, &mut model, keys[i]) {
            inserts += 1;
        }
        // touching ids beyond the allocated chunks with unset must not change anything
        assert!(m.unset(NameId(BEYOND[1])).is_none());
        observe(&m, &model);
        i += 1;
    }
    observe_iter(&m, &model, K + 1);
    kani::cover!(inserts == 0, "all steps were unsets");
    kani::cover!(inserts == K, "all steps were inserts");
    std::mem::forget(m);
}

/// Family (b): default mapping (one chunk) grown by K inserts on the concrete keys, then K
/// symbolic-kind steps on the same keys (their chunks exist now).
fn family_b<const K: usize>(keys: [u32; K]) {
    let mut m: Mapping<NameId, u32> = Mapping::default();
    let mut model: Model = [None; 6];
    observe(&m, &model);
    let mut i = 0;
    while i < K {
        let v: u32 = kani::any();
        let p = pos_of(keys[i]);
        let prev = m.insert(NameId(keys[i]), v);
        assert!(prev == model[p], "insert returns the previous value");
        model[p] = Some(v);
        observe(&m, &model);
        i += 1;
    }
    observe_iter(&m, &model, K + 1);
    let mut unsets = 0;
    let mut i = 0;
    while i < K {
        if !step(&mut m, &mut model, keys[i]) {
            unsets += 1;
        }
        observe(&m, &model);
        i += 1;
    }
    observe_iter(&m, &model, K + 1);
    kani::cover!(unsets == K, "every key unset in phase 2");
    kani::cover!(unsets == 0, "no key unset in phase 2");
    std::mem::forget(m);
}

#[kani::proof]
#[kani::unwind(16)]
fn c19_twin_must_fail() {
    let mut m: Mapping<NameId, u32> = Mapping::with_capacity(12);
    let v: u32 = kani::any();
    m.insert(NameId(5), v);
    assert!(m.get(NameId(5)).is_none(), "vacuity witness");
    std::mem::forget(m);
}

// ---- generated instances follow -------------------------------------------------------------
