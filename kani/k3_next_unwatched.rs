// C01/K3 — watch replacement: WatchedLiterals::next_unwatched_literal.
// Attached as a child module of `crate::solver::clause`.
use super::*;
use crate::internal::arena::ArenaId;
use crate::internal::id::{LearntClauseId, VersionSetId};
use crate::solver::decision_map::DecisionMap;

fn stub_random_state() -> ahash::RandomState {
    ahash::RandomState::with_seeds(1, 2, 3, 4)
}

type ReqMap = FrozenMap<Requirement, Vec<Vec<VariableId>>, ahash::RandomState>;

/// Drop glue of the containers is not the subject and is expensive to encode: leak them.
fn forget3(a: Arena<LearntClauseId, Vec<Literal>>, b: ReqMap, c: DecisionMap) {
    std::mem::forget(a);
    std::mem::forget(b);
    std::mem::forget(c);
}

/// Variables 1..=N (concrete ids, R2); every one is unassigned / true@lvl / false@lvl (symbolic).
fn any_assignment<const N: usize>() -> DecisionMap {
    let mut map = DecisionMap::default();
    // pre-size with the largest id so that no later `set` grows the vector
    map.set(VariableId::from_usize(N), true, 1);
    let mut i = 1;
    while i <= N {
        let var = VariableId::from_usize(i);
        let st: u8 = kani::any();
        kani::assume(st < 3);
        if st == 0 {
            map.reset(var);
        } else {
            let lvl: u32 = kani::any();
            kani::assume(lvl >= 1 && lvl <= 1000);
            map.set(var, st == 1, lvl);
        }
        i += 1;
    }
    map
}

fn learnt_case<const N: usize>() {
    let learnt: Arena<LearntClauseId, Vec<Literal>> = Arena::new();
    let req: ReqMap = FrozenMap::default();
    let mut lits: [Option<Literal>; 5] = [None; 5];
    let mut v: Vec<Literal> = Vec::with_capacity(N);
    let mut i = 0;
    while i < N {
        let l = Literal::new(VariableId::from_usize(i + 1), kani::any());
        lits[i] = Some(l);
        v.push(l);
        i += 1;
    }
    let id = learnt.alloc(v);
    let clause = Clause::Learnt(id);
    let map = any_assignment::<N>();

    let wi: usize = kani::any();
    let wj: usize = kani::any();
    kani::assume(wi < N && wj < N && wi != wj);
    let w = WatchedLiterals {
        watched_literals: [lits[wi].unwrap(), lits[wj].unwrap()],
        next_watches: [None, None],
    };
    let for_idx: usize = kani::any();
    kani::assume(for_idx < 2);
    let moving = w.watched_literals[for_idx];
    let other = w.watched_literals[1 - for_idx];
    // precondition established by propagate(): the watch being moved has just become false
    let moving_is_false = moving.eval(&map) == Some(false);

    let r = w.next_unwatched_literal(&clause, &learnt, &req, &map, for_idx);

    match r {
        Some(l) => {
            let mut is_member = false;
            let mut k = 0;
            while k < N {
                if lits[k] == Some(l) {
                    is_member = true;
                }
                k += 1;
            }
            assert!(is_member, "returned literal belongs to the clause");
            assert!(l != other, "returned literal is not the other watch");
            assert!(l.eval(&map) != Some(false), "returned literal is not false");
            if moving_is_false {
                assert!(l != moving);
            }
        }
        None => {
            // None only if every literal except the other watch is false
            let mut k = 0;
            while k < N {
                let l = lits[k].unwrap();
                if l != other {
                    assert!(l.eval(&map) == Some(false), "None although a non-false literal exists");
                }
                k += 1;
            }
        }
    }
    kani::cover!(r.is_some() && moving_is_false, "replacement found for a falsified watch");
    kani::cover!(r.is_none() && moving_is_false, "no replacement: unit or conflict");
    kani::cover!(r.is_some() && r.unwrap().eval(&map).is_none(), "replacement is unassigned");
    kani::cover!(r.is_some() && r.unwrap().eval(&map) == Some(true), "replacement is true");
    forget3(learnt, req, map);
}

#[kani::proof]
#[kani::unwind(8)]
#[kani::stub(ahash::RandomState::new, stub_random_state)]
fn k3_learnt_2() {
    // with two literals both are watched: nothing to move to
    let learnt: Arena<LearntClauseId, Vec<Literal>> = Arena::new();
    let req: ReqMap = FrozenMap::default();
    let a = Literal::new(VariableId::from_usize(1), kani::any());
    let b = Literal::new(VariableId::from_usize(2), kani::any());
    let id = learnt.alloc(vec![a, b]);
    let map = any_assignment::<2>();
    let swap: bool = kani::any();
    let w = WatchedLiterals {
        watched_literals: if swap { [b, a] } else { [a, b] },
        next_watches: [None, None],
    };
    let for_idx: usize = kani::any();
    kani::assume(for_idx < 2);
    let moving = w.watched_literals[for_idx];
    kani::assume(moving.eval(&map) == Some(false));
    let r = w.next_unwatched_literal(&Clause::Learnt(id), &learnt, &req, &map, for_idx);
    assert!(r.is_none());
    kani::cover!(true, "reached");
    forget3(learnt, req, map);
}

#[kani::proof]
#[kani::unwind(8)]
#[kani::stub(ahash::RandomState::new, stub_random_state)]
fn k3_learnt_3() {
    learnt_case::<3>();
}

#[kani::proof]
#[kani::unwind(8)]
#[kani::stub(ahash::RandomState::new, stub_random_state)]
fn k3_learnt_4() {
    learnt_case::<4>();
}

#[kani::proof]
#[kani::unwind(8)]
#[kani::stub(ahash::RandomState::new, stub_random_state)]
fn k3_binary_kinds_never_move() {
    let learnt: Arena<LearntClauseId, Vec<Literal>> = Arena::new();
    let req: ReqMap = FrozenMap::default();
    let map = any_assignment::<3>();
    let a = VariableId::from_usize(1);
    let b = VariableId::from_usize(2);
    let h = Literal::new(VariableId::from_usize(3), kani::any());
    let for_idx: usize = kani::any();
    kani::assume(for_idx < 2);
    let kind: u8 = kani::any();
    kani::assume(kind < 3);
    let (w, clause) = match kind {
        0 => {
            let w = WatchedLiterals { watched_literals: [a.negative(), b.negative()], next_watches: [None, None] };
            (w, Clause::Constrains(a, b, VersionSetId(kani::any())))
        }
        1 => {
            let w = WatchedLiterals { watched_literals: [a.negative(), h], next_watches: [None, None] };
            (w, Clause::ForbidMultipleInstances(a, h, NameId(kani::any())))
        }
        _ => {
            let w = WatchedLiterals {
                watched_literals: [VariableId::root().negative(), b.negative()],
                next_watches: [None, None],
            };
            (w, Clause::Lock(a, b))
        }
    };
    let r = w.next_unwatched_literal(&clause, &learnt, &req, &map, for_idx);
    assert!(r.is_none());
    kani::cover!(kind == 0, "constrains");
    kani::cover!(kind == 1, "forbid multiple");
    kani::cover!(kind == 2, "lock");
    forget3(learnt, req, map);
}

#[kani::proof]
#[kani::unwind(8)]
#[kani::stub(ahash::RandomState::new, stub_random_state)]
fn k3_twin_must_fail() {
    let learnt: Arena<LearntClauseId, Vec<Literal>> = Arena::new();
    let req: ReqMap = FrozenMap::default();
    let a = Literal::new(VariableId::from_usize(1), kani::any());
    let b = Literal::new(VariableId::from_usize(2), kani::any());
    let c = Literal::new(VariableId::from_usize(3), kani::any());
    let id = learnt.alloc(vec![a, b, c]);
    let map = any_assignment::<3>();
    let w = WatchedLiterals { watched_literals: [a, b], next_watches: [None, None] };
    let r = w.next_unwatched_literal(&Clause::Learnt(id), &learnt, &req, &map, 0);
    assert!(r.is_none(), "vacuity witness");
    forget3(learnt, req, map);
}
