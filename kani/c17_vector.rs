// C17 — Rust side of the FFI Vector: layout arithmetic (fully symbolic) and operation sequences.
// Attached as a child module of `vector` (cpp/src/vector.rs of the scratch copy).
use super::*;

const HEADER: usize = 24; // sizeof(VectorHeader) = resolvo_vector.h's sizeof(Header): 3 machine words

fn layout_for<T>() {
    let cap: usize = kani::any();
    kani::assume(cap <= (1usize << 32));
    let l = compute_inner_layout::<T>(cap);
    // the formula resolvo_vector.h uses for resolvo_vector_allocate / resolvo_vector_free
    assert!(l.size() == HEADER + cap * core::mem::size_of::<T>(), "layout size = sizeof(Header) + capacity * sizeof(T)");
    assert!(l.align() == core::mem::align_of::<VectorHeader>(), "layout alignment = alignof(Header)");
    assert!(core::mem::size_of::<VectorHeader>() == HEADER);
    // the data field sits right after the header for every T with alignof(T) <= alignof(Header)
    assert!(core::mem::offset_of!(VectorInner<T>, data) == HEADER);
    kani::cover!(cap == (1usize << 32), "largest capacity");
    kani::cover!(cap == 0, "zero capacity");
}

#[kani::proof]
fn c17_layout_u8() {
    layout_for::<u8>();
}
#[kani::proof]
fn c17_layout_u32() {
    layout_for::<u32>();
}
#[kani::proof]
fn c17_layout_u64() {
    layout_for::<u64>();
}
#[kani::proof]
fn c17_layout_pair() {
    layout_for::<(u32, u32)>();
}

#[kani::proof]
fn c17_growth() {
    let cur: usize = kani::any();
    let req: usize = kani::any();
    let sz: usize = kani::any();
    kani::assume(cur <= (1usize << 40) && req <= (1usize << 40) && sz <= 4096);
    let c = determine_capacity_for_growth(cur, req, sz);
    assert!(c >= req, "grown capacity fits the request");
    assert!(c >= cur, "capacity never shrinks");
    if cur >= req {
        assert!(c == cur, "no growth when the request already fits");
    } else {
        assert!(c >= 1);
    }
    kani::cover!(cur < req && c == req, "exact fit");
    kani::cover!(cur < req && c == cur * 2, "doubling");
    kani::cover!(cur == 0 && req == 1 && c == 8, "minimum capacity for bytes");
}

// ---- operation sequences on allocated vectors (shape fixed per harness, values symbolic) -------------

fn check_contents<const N: usize>(v: &Vector<u32>, expect: &[u32; N], n: usize) {
    assert!(v.len() == n);
    assert!(v.is_empty() == (n == 0));
    let s = v.as_slice();
    assert!(s.len() == n);
    let mut i = 0;
    while i < N {
        if i < n {
            assert!(s[i] == expect[i], "element equals the pushed value");
        }
        i += 1;
    }
    assert!(v.capacity() >= n);
}

fn refcount(v: &Vector<u32>) -> isize {
    unsafe { v.inner.cast::<VectorHeader>().as_ref().refcount.load(atomic::Ordering::Relaxed) }
}

/// K pushes starting from an allocated vector of capacity C0 (crossing the growth points), contents checked
/// after every push; then dropped (CBMC checks the deallocation layout and double frees).
fn push_case<const K: usize>(c0: usize) {
    let mut v: Vector<u32> = Vector::with_capacity(c0);
    let mut e = [0u32; K];
    let mut i = 0;
    while i < K {
        e[i] = kani::any();
        v.push(e[i]);
        check_contents(&v, &e, i + 1);
        assert!(refcount(&v) == 1);
        i += 1;
    }
    let j: usize = kani::any();
    kani::assume(j < K);
    assert!(v[j] == e[j], "symbolic read index");
    kani::cover!(K <= c0 || v.capacity() > c0, "vector grew");
    drop(v);
}

#[kani::proof]
#[kani::unwind(10)]
fn c17_push_3_from_cap4() {
    push_case::<3>(4);
}
#[kani::proof]
#[kani::unwind(10)]
fn c17_push_5_from_cap4() {
    push_case::<5>(4);
}
#[kani::proof]
#[kani::unwind(10)]
fn c17_push_3_from_cap2() {
    push_case::<3>(2);
}
/// F4 witness: a capacity-1 Vector<u32> is a 28-byte allocation, smaller than size_of::<VectorInner<u32>>() = 32
#[kani::proof]
#[kani::unwind(10)]
fn c17_push_3_from_cap1() {
    push_case::<3>(1);
}

/// copy-on-write: a clone shares the buffer (refcount 2); pushing to one side detaches it and leaves the
/// other untouched; both are freed exactly once.
#[kani::proof]
#[kani::unwind(10)]
fn c17_clone_then_push() {
    let mut a: Vector<u32> = Vector::with_capacity(4);
    let mut e = [0u32; 4];
    e[0] = kani::any();
    e[1] = kani::any();
    a.push(e[0]);
    a.push(e[1]);
    let b = a.clone();
    assert!(refcount(&a) == 2 && refcount(&b) == 2);
    assert!(a.as_ptr() == b.as_ptr(), "clone shares the buffer");
    e[2] = kani::any();
    a.push(e[2]);
    check_contents(&a, &e, 3);
    check_contents(&b, &e, 2);
    assert!(a.as_ptr() != b.as_ptr(), "push on a shared vector detaches it");
    assert!(refcount(&a) == 1 && refcount(&b) == 1);
    kani::cover!(e[0] == e[2], "equal values");
    drop(a);
    drop(b);
}

/// into_iter on an unshared vector moves the elements out; dropping the iterator early frees the rest once.
#[kani::proof]
#[kani::unwind(10)]
fn c17_into_iter_unshared_partial() {
    let mut a: Vector<u32> = Vector::with_capacity(4);
    let e: [u32; 3] = kani::any();
    a.push(e[0]);
    a.push(e[1]);
    a.push(e[2]);
    let take: usize = kani::any();
    kani::assume(take <= 4);
    let mut it = a.into_iter();
    let mut i = 0;
    while i < 4 {
        if i < take {
            let x = it.next();
            if i < 3 {
                assert!(x == Some(e[i]), "elements come out in order");
            } else {
                assert!(x.is_none(), "iterator ends after len elements");
            }
        }
        i += 1;
    }
    kani::cover!(take == 0, "iterator dropped untouched");
    kani::cover!(take == 4, "iterator exhausted");
    drop(it);
}

/// into_iter on a shared vector clones the elements and leaves the other owner intact.
#[kani::proof]
#[kani::unwind(10)]
fn c17_into_iter_shared() {
    let mut a: Vector<u32> = Vector::with_capacity(4);
    let e: [u32; 2] = kani::any();
    a.push(e[0]);
    a.push(e[1]);
    let b = a.clone();
    let mut it = a.into_iter();
    assert!(it.next() == Some(e[0]));
    assert!(it.next() == Some(e[1]));
    assert!(it.next().is_none());
    drop(it);
    assert!(refcount(&b) == 1, "the iterator released its share");
    let ee = [e[0], e[1]];
    check_contents(&b, &ee, 2);
    kani::cover!(true, "reached");
    drop(b);
}

/// from_iter with an exact size hint (array iterator) and with an under-estimating one (filter).
#[kani::proof]
#[kani::unwind(10)]
fn c17_from_iter_exact() {
    let e: [u32; 3] = kani::any();
    let v: Vector<u32> = e.iter().copied().collect();
    check_contents(&v, &e, 3);
    assert!(refcount(&v) == 1);
    kani::cover!(true, "reached");
    drop(v);
}

/// An iterator that under-reports its length: lower size hint 2, yields 3 elements.
struct Under {
    e: [u32; 3],
    i: usize,
}
impl Iterator for Under {
    type Item = u32;
    fn next(&mut self) -> Option<u32> {
        if self.i < 3 {
            self.i += 1;
            Some(self.e[self.i - 1])
        } else {
            None
        }
    }
    fn size_hint(&self) -> (usize, Option<usize>) {
        (if self.i == 0 { 2 } else { 0 }, None)
    }
}

#[kani::proof]
#[kani::unwind(10)]
fn c17_from_iter_regrow() {
    let e: [u32; 3] = kani::any();
    let v: Vector<u32> = Under { e, i: 0 }.collect();
    check_contents(&v, &e, 3);
    assert!(refcount(&v) == 1);
    kani::cover!(v.capacity() >= 3, "regrown");
    drop(v);
}

/// F4 witness: size hint 0 makes from_iter allocate a header-only (24-byte) block
#[kani::proof]
#[kani::unwind(10)]
fn c17_from_iter_underestimate() {
    let e: [u32; 3] = kani::any();
    // `filter` reports a lower size hint of 0: from_iter has to regrow while filling
    let v: Vector<u32> = e.iter().copied().filter(|_| true).collect();
    check_contents(&v, &e, 3);
    assert!(refcount(&v) == 1);
    kani::cover!(true, "reached");
    drop(v);
}

/// Element type that OWNS memory (Box<u32>): every element must be freed exactly once whichever way it
/// leaves the vector - moved out by a partially consumed iterator, moved by detach() when a push has to
/// grow, or dropped with the vector.  CBMC's double-free / dead-object checks are the oracle.
#[kani::proof]
#[kani::unwind(10)]
fn c17_owning_into_iter_partial() {
    let mut a: Vector<Box<u32>> = Vector::with_capacity(4);
    let e: [u32; 3] = kani::any();
    a.push(Box::new(e[0]));
    a.push(Box::new(e[1]));
    a.push(Box::new(e[2]));
    let take: usize = kani::any();
    kani::assume(take <= 3);
    let mut it = a.into_iter();
    let mut i = 0;
    while i < 3 {
        if i < take {
            let x = it.next().unwrap();
            assert!(*x == e[i], "elements come out in order");
            drop(x);
        }
        i += 1;
    }
    kani::cover!(take == 1, "one element moved out, two left in the iterator");
    kani::cover!(take == 3, "everything moved out");
    drop(it);
}

#[kani::proof]
#[kani::unwind(10)]
fn c17_owning_push_grow() {
    let mut a: Vector<Box<u32>> = Vector::with_capacity(2);
    let e: [u32; 3] = kani::any();
    a.push(Box::new(e[0]));
    a.push(Box::new(e[1]));
    a.push(Box::new(e[2])); // grows 2 -> 4: detach() moves the boxes through an unshared iterator
    assert!(a.len() == 3);
    assert!(*a[0] == e[0] && *a[1] == e[1] && *a[2] == e[2]);
    kani::cover!(true, "reached");
    drop(a);
}

/// The shared static empty vector (Vector::default()): len/slice/clone/drop never touch or free it.
#[kani::proof]
#[kani::unwind(10)]
fn c17_default_empty_readonly_ops() {
    let a: Vector<u32> = Vector::default();
    assert!(a.len() == 0 && a.is_empty() && a.as_slice().is_empty());
    let b = a.clone();
    assert!(b.len() == 0);
    assert!(refcount(&a) == -1, "the static empty header is never reference counted");
    kani::cover!(true, "reached");
    drop(a);
    drop(b);
}

/// Pushing onto Vector::default(): detach() reads the 24-byte static header through
/// `&VectorInner<T>` (28/32 bytes).  Kept separate so that this language-level UB report (F4) is keyed by
/// its own harness and cannot mask the functional harnesses above.
#[kani::proof]
#[kani::unwind(10)]
fn c17_default_then_push() {
    let mut a: Vector<u32> = Vector::default();
    let x: u32 = kani::any();
    a.push(x);
    assert!(a.len() == 1 && a[0] == x);
    assert!(refcount(&a) == 1);
    kani::cover!(true, "reached");
    drop(a);
}

#[kani::proof]
#[kani::unwind(10)]
fn c17_vec_twin_must_fail() {
    let mut a: Vector<u32> = Vector::with_capacity(4);
    let x: u32 = kani::any();
    a.push(x);
    assert!(a[0] != x, "vacuity witness");
    drop(a);
}
