// Attached to the scratch copy of src/solver/mod.rs as `#[cfg(verif_cert)] mod verif_cert;` (DESIGN section 8.2).
// Read-only accessors: dump the clause database (kinds + literals as the real `visit_literals` sees them), the
// learnt clauses with their antecedents, the variable origins and the encoder's bookkeeping sets.
use super::*;

#[allow(missing_docs)]
pub struct VerifClause {
    pub id: usize,
    /// root | requires | forbid | constrains | lock | learnt | excluded
    pub kind: &'static str,
    /// (variable, positive?) - positive literal means "variable true satisfies the clause"
    pub lits: Vec<(usize, bool)>,
    /// requires: (parent var, is_union, requirement id); constrains: (parent, 0, version set); lock: (locked var, 0, 0)
    pub meta: (usize, bool, u32),
    pub has_watches: bool,
}
#[allow(missing_docs)]
pub struct VerifDump {
    pub clauses: Vec<VerifClause>,
    /// (variable, 0 root / 1 solvable / 2 forbid-multiple helper, solvable id or name id)
    pub vars: Vec<(usize, u8, u32)>,
    pub learnt_why: Vec<(usize, Vec<usize>)>,
    pub negative_assertions: Vec<(usize, usize)>,
    pub added_solvables: Vec<Option<u32>>,
    pub added_packages: Vec<u32>,
    /// (variable, value, level, derived_from) in trail order
    pub trail: Vec<(usize, bool, u32, usize)>,
}

impl<D: DependencyProvider, RT: AsyncRuntime> Solver<D, RT> {
    /// read-only dump of the solver state (verification accessor)
    pub fn verif_dump(&self) -> VerifDump {
        let st = &self.state;
        let mut clauses = Vec::new();
        for (i, kind) in st.clauses.kinds.iter().enumerate() {
            let mut lits = Vec::new();
            let (name, meta) = match *kind {
                Clause::InstallRoot => ("root", (0, false, 0)),
                Clause::Requires(p, r) => (
                    "requires",
                    match r {
                        Requirement::Single(v) => (p.to_usize(), false, v.0),
                        Requirement::Union(u) => (p.to_usize(), true, u.0),
                    },
                ),
                Clause::ForbidMultipleInstances(_, _, n) => ("forbid", (0, false, n.0)),
                Clause::Constrains(p, _f, v) => ("constrains", (p.to_usize(), false, v.0)),
                Clause::Lock(l, _o) => ("lock", (l.to_usize(), false, 0)),
                Clause::Learnt(_) => ("learnt", (0, false, 0)),
                Clause::Excluded(_, s) => ("excluded", (0, false, s.0)),
            };
            if !matches!(kind, Clause::InstallRoot) {
                kind.visit_literals(&st.learnt_clauses, &st.requirement_to_sorted_candidates, |l| {
                    lits.push((l.variable().to_usize(), l.satisfying_value()));
                });
            } else {
                lits.push((0, true));
            }
            clauses.push(VerifClause { id: i, kind: name, lits, meta, has_watches: st.clauses.watched_literals[i].is_some() });
        }
        let mut learnt_why = Vec::new();
        for &cid in &st.learnt_clause_ids {
            if let Clause::Learnt(lid) = st.clauses.kinds[cid.to_usize()] {
                let why = st.learnt_why.get(lid).map(|v| v.iter().map(|c| c.to_usize()).collect()).unwrap_or_default();
                learnt_why.push((cid.to_usize(), why));
            }
        }
        let mut vars = Vec::new();
        // `verif_next_id` is appended to the scratch copy of variable_map.rs by the check (read-only accessor)
        for v in 0..st.variable_map.verif_next_id() {
            match st.variable_map.origin(VariableId::from_usize(v)) {
                variable_map::VariableOrigin::Root => vars.push((v, 0, 0)),
                variable_map::VariableOrigin::Solvable(s) => vars.push((v, 1, s.0)),
                variable_map::VariableOrigin::ForbidMultiple(n) => vars.push((v, 2, n.0)),
            }
        }
        let trail = st
            .decision_tracker
            .stack()
            .map(|d| (d.variable.to_usize(), d.value, st.decision_tracker.level(d.variable), d.derived_from.to_usize()))
            .collect();
        VerifDump {
            clauses,
            vars,
            learnt_why,
            negative_assertions: st.negative_assertions.iter().map(|&(v, c)| (v.to_usize(), c.to_usize())).collect(),
            added_solvables: st.clauses_added_for_solvable.iter().map(|s| s.solvable().map(|s| s.0)).collect(),
            added_packages: st.clauses_added_for_package.iter().map(|n| n.0).collect(),
            trail,
        }
    }
}
