// C01/K7 — the Requires clause (the clause kind every positive selection rests on): meaning vs. the cached candidate
// lists, and watch replacement.  Child module of crate::solver::clause, built against the dependency shims
// (DESIGN 8.1: elsa::FrozenMap is an insert-only association list), which is what makes a POPULATED
// requirement_to_sorted_candidates affordable for CBMC.
use super::*;
use crate::internal::arena::ArenaId;
use crate::internal::id::{LearntClauseId, VersionSetId, VersionSetUnionId};
use crate::solver::decision_map::DecisionMap;

type ReqMap = FrozenMap<Requirement, Vec<Vec<VariableId>>, ahash::RandomState>;

fn v(i: usize) -> VariableId {
    VariableId::from_usize(i)
}

/// Variables 1..=N (concrete ids); each one unassigned / true@lvl / false@lvl (symbolic).
fn any_assignment<const N: usize>() -> DecisionMap {
    let mut map = DecisionMap::default();
    map.set(v(N), true, 1);
    let mut i = 1;
    while i <= N {
        let st: u8 = kani::any();
        kani::assume(st < 3);
        if st == 0 {
            map.reset(v(i));
        } else {
            let lvl: u32 = kani::any();
            kani::assume(lvl >= 1 && lvl <= 1000);
            map.set(v(i), st == 1, lvl);
        }
        i += 1;
    }
    map
}

/// SHAPE selects how the candidates 2..=NC+1 are grouped into version sets (enumerated: it fixes Vec lengths);
/// UNION selects Requirement::Union vs Requirement::Single as the key.  A second, unrelated entry is stored first so
/// that the lookup has to pick the right key.
fn requires_case<const NC: usize, const SHAPE: u8, const UNION: bool>() {
    let learnt: Arena<LearntClauseId, Vec<Literal>> = Arena::new();
    let req: ReqMap = FrozenMap::default();
    let key: Requirement = if UNION { Requirement::Union(VersionSetUnionId(3)) } else { Requirement::Single(VersionSetId(3)) };
    let other_key: Requirement = if UNION { Requirement::Single(VersionSetId(3)) } else { Requirement::Union(VersionSetUnionId(3)) };
    req.insert(other_key, vec![vec![v(9)]]);
    let groups: Vec<Vec<VariableId>> = match (NC, SHAPE) {
        (1, _) => vec![vec![v(2)]],
        (2, 0) => vec![vec![v(2), v(3)]],
        (2, _) => vec![vec![v(2)], vec![v(3)]],
        (3, 0) => vec![vec![v(2), v(3), v(4)]],
        (3, 1) => vec![vec![v(2), v(3)], vec![v(4)]],
        (3, 2) => vec![vec![v(2)], vec![], vec![v(3), v(4)]],
        _ => vec![vec![v(2)], vec![v(3)], vec![v(4)]],
    };
    req.insert(key, groups);
    let clause = Clause::Requires(v(1), key);

    // ---- meaning: ¬parent ∨ c2 ∨ ... in cached order ------------------------------------------------------
    let mut seen = [None::<Literal>; 5];
    let mut n = 0usize;
    clause.visit_literals(&learnt, &req, |l| {
        if n < 5 {
            seen[n] = Some(l);
        }
        n += 1;
    });
    assert!(n == NC + 1, "one literal for the parent and one per candidate");
    assert!(seen[0] == Some(v(1).negative()), "the parent occurs negatively, first");
    let mut k = 0;
    while k < NC {
        assert!(seen[k + 1] == Some(v(k + 2).positive()), "candidates occur positively, in the cached order");
        k += 1;
    }

    // ---- watch replacement ------------------------------------------------------------------------------------
    let map = any_assignment::<4>();
    let wi: usize = kani::any();
    let wj: usize = kani::any();
    kani::assume(wi <= NC && wj <= NC && wi != wj);
    let w = WatchedLiterals { watched_literals: [seen[wi].unwrap(), seen[wj].unwrap()], next_watches: [None, None] };
    let for_idx: usize = kani::any();
    kani::assume(for_idx < 2);
    let moving = w.watched_literals[for_idx];
    let other = w.watched_literals[1 - for_idx];
    let moving_is_false = moving.eval(&map) == Some(false);
    let r = w.next_unwatched_literal(&clause, &learnt, &req, &map, for_idx);
    match r {
        Some(l) => {
            let mut is_member = false;
            let mut k = 0;
            while k <= NC {
                if seen[k] == Some(l) {
                    is_member = true;
                }
                k += 1;
            }
            assert!(is_member, "returned literal belongs to the clause");
            assert!(l != other, "returned literal is not the other watch");
            assert!(l.eval(&map) != Some(false), "returned literal is not false");
            if moving_is_false {
                assert!(l != moving);
            }
        }
        None => {
            let mut k = 0;
            while k <= NC {
                let l = seen[k].unwrap();
                if l != other {
                    assert!(l.eval(&map) == Some(false), "None although a non-false literal exists");
                }
                k += 1;
            }
        }
    }
    // with a single candidate both literals are watched and nothing can be moved: the witness is trivial there
    kani::cover!(NC < 2 || (r.is_some() && moving_is_false), "replacement found for a falsified watch");
    kani::cover!(r.is_none() && moving_is_false, "no replacement: unit or conflict");
    std::mem::forget(learnt);
    std::mem::forget(req);
    std::mem::forget(map);
}

#[kani::proof]
#[kani::unwind(8)]
fn k7_requires_1() {
    requires_case::<1, 0, false>();
}
#[kani::proof]
#[kani::unwind(8)]
fn k7_requires_2_one_set() {
    requires_case::<2, 0, false>();
}
#[kani::proof]
#[kani::unwind(8)]
fn k7_requires_2_union() {
    requires_case::<2, 1, true>();
}
#[kani::proof]
#[kani::unwind(8)]
fn k7_requires_3_one_set() {
    requires_case::<3, 0, false>();
}
#[kani::proof]
#[kani::unwind(8)]
fn k7_requires_3_union_2_1() {
    requires_case::<3, 1, true>();
}
#[kani::proof]
#[kani::unwind(8)]
fn k7_requires_3_union_with_empty_member() {
    requires_case::<3, 2, true>();
}
#[kani::proof]
#[kani::unwind(8)]
fn k7_requires_3_union_1_1_1() {
    requires_case::<3, 3, true>();
}

#[kani::proof]
#[kani::unwind(8)]
fn k7_twin_must_fail() {
    let learnt: Arena<LearntClauseId, Vec<Literal>> = Arena::new();
    let req: ReqMap = FrozenMap::default();
    let key: Requirement = Requirement::Single(VersionSetId(3));
    req.insert(key, vec![vec![v(2)]]);
    let mut n = 0;
    Clause::Requires(v(1), key).visit_literals(&learnt, &req, |_l| n += 1);
    assert!(n == 2);
    std::mem::forget(learnt);
    std::mem::forget(req);
    assert!(false, "vacuity witness");
}
