// C18 — Pool interning: equal values share ids, different values get different ids, resolving returns what was
// interned, solvable/union ids are dense, references stay valid.  Child module of crate::utils::pool.
// Built against the dependency shims (DESIGN 8.1): FrozenCopyMap's HashMap is an association list.
use super::*;
use crate::internal::arena::ArenaId;

#[derive(Clone, PartialEq, Eq, Hash)]
struct N(u8);
#[derive(Clone, PartialEq, Eq, Hash)]
struct VS(u8);
impl VersionSet for VS {
    type V = u8;
}

/// two names; `EQUAL` fixes whether they are the same value (it decides whether a second slot is allocated, i.e. a
/// Vec length - DESIGN R2), the values themselves are symbolic
fn names_case<const EQUAL: bool>() {
    let pool: Pool<VS, N> = Pool::new();
    let a: u8 = kani::any();
    let b: u8 = kani::any();
    kani::assume((a == b) == EQUAL);
    let ia = pool.intern_package_name(N(a));
    let held: &N = pool.resolve_package_name(ia);
    let ib = pool.intern_package_name(N(b));
    assert!((ia == ib) == EQUAL, "equal names share an id, different names get different ids");
    assert!(ia.to_usize() == 0 && ib.to_usize() == if EQUAL { 0 } else { 1 }, "name ids are dense");
    let ia2 = pool.intern_package_name(N(a));
    assert!(ia2 == ia, "interning again returns the same id");
    assert!(pool.lookup_package_name(&N(b)) == Some(ib), "lookup finds the interned name");
    assert!(pool.resolve_package_name(ib).0 == b, "resolving returns what was interned");
    assert!(held.0 == a, "reference obtained before later interning is still valid and unchanged");
    let c: u8 = kani::any();
    kani::assume(c != a && c != b);
    assert!(pool.lookup_package_name(&N(c)).is_none(), "a name that was never interned is not found");
    kani::cover!(a == 255, "extreme value");
    std::mem::forget(pool);
}

#[kani::proof]
#[kani::unwind(8)]
fn c18_pool_names_equal() {
    names_case::<true>();
}
#[kani::proof]
#[kani::unwind(8)]
fn c18_pool_names_distinct() {
    names_case::<false>();
}

/// version sets are keyed by (package, value): same value under another package is a different version set
fn version_sets_case<const SAME_NAME: bool, const SAME_VS: bool>() {
    let pool: Pool<VS, N> = Pool::new();
    let n0 = pool.intern_package_name(N(7));
    let n1 = if SAME_NAME { n0 } else { pool.intern_package_name(N(9)) };
    let x: u8 = kani::any();
    let y: u8 = kani::any();
    kani::assume((x == y) == SAME_VS);
    let v0 = pool.intern_version_set(n0, VS(x));
    let v1 = pool.intern_version_set(n1, VS(y));
    assert!((v0 == v1) == (SAME_NAME && SAME_VS), "version sets are equal iff package and value are equal");
    assert!(pool.resolve_version_set(v1).0 == y && pool.resolve_version_set_package_name(v1) == n1);
    assert!(pool.resolve_version_set(v0).0 == x && pool.resolve_version_set_package_name(v0) == n0);
    assert!(pool.intern_version_set(n0, VS(x)) == v0, "interning again returns the same id");
    kani::cover!(x == 0, "zero value");
    std::mem::forget(pool);
}
#[kani::proof]
#[kani::unwind(8)]
fn c18_pool_vs_same_same() {
    version_sets_case::<true, true>();
}
#[kani::proof]
#[kani::unwind(8)]
fn c18_pool_vs_same_name_other_value() {
    version_sets_case::<true, false>();
}
#[kani::proof]
#[kani::unwind(8)]
fn c18_pool_vs_other_name_same_value() {
    version_sets_case::<false, true>();
}

/// solvable and union ids are dense and unique even for equal records
#[kani::proof]
#[kani::unwind(8)]
fn c18_pool_solvables_unions() {
    let pool: Pool<VS, N> = Pool::new();
    let n0 = pool.intern_package_name(N(1));
    let r: u8 = kani::any();
    let s0 = pool.intern_solvable(n0, r);
    let s1 = pool.intern_solvable(n0, r);
    assert!(s0.to_usize() == 0 && s1.to_usize() == 1, "solvable ids are dense and unique, also for equal records");
    assert!(pool.resolve_solvable(s1).record == r && pool.resolve_solvable(s1).name == n0);
    let v0 = pool.intern_version_set(n0, VS(3));
    let v1 = pool.intern_version_set(n0, VS(4));
    let u0 = pool.intern_version_set_union(v0, [v1].into_iter());
    let u1 = pool.intern_version_set_union(v1, [v0].into_iter());
    assert!(u0.to_usize() == 0 && u1.to_usize() == 1, "union ids are dense and unique");
    {
        let mut it = pool.resolve_version_set_union(u1);
        assert!(it.next() == Some(v1) && it.next() == Some(v0) && it.next().is_none(), "members in the order given");
    }
    kani::cover!(r == 200, "some record");
    std::mem::forget(pool);
}

#[kani::proof]
#[kani::unwind(8)]
fn c18_pool_twin_must_fail() {
    let pool: Pool<VS, N> = Pool::new();
    let a: u8 = kani::any();
    let ia = pool.intern_package_name(N(a));
    assert!(pool.resolve_package_name(ia).0 == a);
    std::mem::forget(pool);
    assert!(false, "vacuity witness");
}
