// C02/K6 — watch lists: WatchMap::start_watching / cursor / next / update.
// Attached as a child module of `crate::solver::watch_map`.  mapping.rs VALUES_PER_CHUNK is scaled to 4
// in the scratch copy; the map is pre-sized for the 6-literal alphabet (ids 0..=5: variables 0..2 in
// both polarities) and every mutating call is dispatched on concrete literal ids (DESIGN R2), so the
// *choice* of literals is symbolic while every Mapping::insert sees a concrete id.
use super::*;

fn lit(i: usize) -> Literal {
    Literal::from_usize(i)
}

fn new_map() -> WatchMap {
    WatchMap { map: Mapping::with_capacity(8) }
}

fn watch_pair(m: &mut WatchMap, a: usize, b: usize, cid: ClauseId) -> WatchedLiterals {
    let mut wl = WatchedLiterals { watched_literals: [lit(a), lit(b)], next_watches: [None, None] };
    m.start_watching(&mut wl, cid);
    wl
}

type Watches = [Option<WatchedLiterals>; 3];

fn watching(w: &Watches, i: usize, l: Literal) -> bool {
    match &w[i] {
        Some(wl) => wl.watched_literals[0] == l || wl.watched_literals[1] == l,
        None => false,
    }
}

/// Walks the list of `l` and checks: terminates within 4 steps, visits exactly the clauses whose
/// watched_literals contain `l`, each once, with the right watch index.  Returns the visiting order.
fn walk_and_check(m: &mut WatchMap, w: &mut Watches, l: Literal) -> [usize; 3] {
    let mut seen = [0u8; 3];
    let mut order = [usize::MAX; 3];
    let mut n = 0;
    {
        let mut cur = m.cursor(&mut w[..], l);
        let mut steps = 0;
        while steps < 4 {
            cur = match cur {
                None => None,
                Some(c) => {
                    let cid = c.clause_id().to_usize();
                    assert!(cid < 3, "list points at an existing clause");
                    assert!(c.watched_literals().watched_literals[c.watch_index()] == l,
                            "visited clause really watches the literal at the recorded index");
                    assert!(n < 3, "a watch list over 3 clauses has at most 3 nodes (no cycle)");
                    seen[cid] += 1;
                    order[n] = cid;
                    n += 1;
                    c.next()
                }
            };
            steps += 1;
        }
        assert!(cur.is_none(), "watch list terminates");
    }
    let mut i = 0;
    while i < 3 {
        let expect = if watching(w, i, l) { 1 } else { 0 };
        assert!(seen[i] == expect, "clause is in the list of a literal iff it watches it (no lost / double watch)");
        i += 1;
    }
    order
}

fn check_all_lists(m: &mut WatchMap, w: &mut Watches) {
    let mut l = 0;
    while l < 6 {
        walk_and_check(m, w, lit(l));
        l += 1;
    }
}

/// cursor(l), `s` x next(), update(n), then every check — all inside one dispatch branch, so that `l`
/// and `n` are concrete wherever the real code calls Mapping::insert/unset (DESIGN R2) and the
/// post-state is examined before branches merge.  Returns whether an update happened.
fn update_at(m: &mut WatchMap, w: &mut Watches, l: usize, n: usize, s: usize) -> bool {
    let before = walk_and_check(m, w, lit(l));
    let old: [Option<[Literal; 2]>; 3] = [
        w[0].as_ref().map(|x| x.watched_literals),
        w[1].as_ref().map(|x| x.watched_literals),
        w[2].as_ref().map(|x| x.watched_literals),
    ];
    let r = update_inner(m, w, l, n, s);
    match r {
        None => {
            // only possible if the list of `l` has fewer than s+1 nodes
            assert!(before[s] == usize::MAX);
        }
        Some((cid, wi, next)) => {
            assert!(before[s] == cid, "update acted on the s-th node of the list");
            // exactly one watch of one clause changed
            let mut i = 0;
            while i < 3 {
                let now = w[i].as_ref().map(|x| x.watched_literals);
                if i == cid {
                    let o = old[i].unwrap();
                    let nw = now.unwrap();
                    assert!(nw[wi] == lit(n) && nw[1 - wi] == o[1 - wi]);
                } else {
                    assert!(now == old[i]);
                }
                i += 1;
            }
            // the returned cursor continues with the node that followed in the old list
            let expect_next = if s + 1 < 3 && before[s + 1] != usize::MAX { Some(before[s + 1]) } else { None };
            assert!(next == expect_next, "cursor returned by update continues with the old successor");
        }
    }
    // every list is consistent again
    check_all_lists(m, w);
    r.is_some()
}

fn update_inner(m: &mut WatchMap, w: &mut Watches, l: usize, n: usize, s: usize) -> Option<(usize, usize, Option<usize>)> {
    let cur = m.cursor(&mut w[..], lit(l))?;
    let cur = if s >= 1 { cur.next()? } else { cur };
    let cur = if s >= 2 { cur.next()? } else { cur };
    let cid = cur.clause_id().to_usize();
    let wi = cur.watch_index();
    // precondition (propagate() picks the replacement with next_unwatched_literal, which excludes the
    // clause's other watch): the new watch differs from the other watch of the clause
    let other = cur.watched_literals().watched_literals[1 - wi];
    kani::assume(other != lit(n));
    let ret = cur.update(lit(n));
    Some((cid, wi, ret.map(|c| c.clause_id().to_usize())))
}

/// The clauses' watched pairs are concrete per harness instance (enumerated by the generator).
fn setup<const NC: usize>(m: &mut WatchMap, pairs: [(usize, usize); NC]) -> Watches {
    let mut w: Watches = [None, None, None];
    let mut i = 0;
    while i < NC {
        w[i] = Some(watch_pair(m, pairs[i].0, pairs[i].1, ClauseId::from_usize(i)));
        i += 1;
    }
    w
}

fn start_watching_case<const NC: usize>(pairs: [(usize, usize); NC]) {
    let nclauses = NC;
    let mut m = new_map();
    let mut w = setup(&mut m, pairs);
    check_all_lists(&mut m, &mut w);
    // newest clause first: start_watching pushes at the head of each list
    let l: usize = kani::any();
    kani::assume(l < 6);
    let order = walk_and_check(&mut m, &mut w, lit(l));
    if order[0] != usize::MAX && order[1] != usize::MAX {
        assert!(order[0] > order[1]);
    }
    let _ = nclauses;
    kani::cover!(order[0] != usize::MAX, "a watched literal");
    std::mem::forget(m);
}

/// `l` (the literal whose list is walked) and the position `s` in its list are concrete per harness
/// instance (a symbolic position makes every later list walk chase symbolic indices: 12 GB, no answer);
/// the new watch is chosen symbolically among the 5 other literals (dispatched so that each branch sees
/// a concrete id).
fn update_case<const NC: usize>(pairs: [(usize, usize); NC], l: usize, s: usize) {
    let mut m = new_map();
    let mut w = setup(&mut m, pairs);
    let k: u8 = kani::any();
    kani::assume(k < 5);
    let happened = match k {
        0 => update_at(&mut m, &mut w, l, (l + 1) % 6, s),
        1 => update_at(&mut m, &mut w, l, (l + 2) % 6, s),
        2 => update_at(&mut m, &mut w, l, (l + 3) % 6, s),
        3 => update_at(&mut m, &mut w, l, (l + 4) % 6, s),
        _ => update_at(&mut m, &mut w, l, (l + 5) % 6, s),
    };
    kani::cover!(happened, "an update happened");
    std::mem::forget(m);
}

fn any_lit6() -> usize {
    let x: u8 = kani::any();
    kani::assume(x < 6);
    x as usize
}

/// Path-mode harnesses (CBMC --paths lifo): EVERYTHING is symbolic - the watched pair of every clause, the
/// literal whose list is edited, the position in that list and the new watch.  On each path the literal ids
/// that reach Mapping::insert are decided by the branch conditions, which is what the merged-state encoding
/// could not afford (DESIGN P22).
fn paths_update_case<const NC: usize>() {
    let mut m = new_map();
    let mut w: Watches = [None, None, None];
    let mut i = 0;
    while i < NC {
        let a = any_lit6();
        let b = any_lit6();
        kani::assume(a != b);
        w[i] = Some(watch_pair(&mut m, a, b, ClauseId::from_usize(i)));
        i += 1;
    }
    check_all_lists(&mut m, &mut w);
    let l = any_lit6();
    let n = any_lit6();
    kani::assume(n != l);
    let s: usize = kani::any();
    kani::assume(s < NC);
    let happened = update_at(&mut m, &mut w, l, n, s);
    kani::cover!(happened, "an update happened");
    kani::cover!(happened && s == NC - 1, "update at the last position of a list shared by all clauses");
    kani::cover!(!happened, "literal watched by fewer clauses than the requested position");
    std::mem::forget(m);
}

#[kani::proof]
#[kani::unwind(8)]
fn k6_paths_update_1() {
    paths_update_case::<1>();
}

#[kani::proof]
#[kani::unwind(8)]
fn k6_paths_update_2() {
    paths_update_case::<2>();
}

#[kani::proof]
#[kani::unwind(8)]
fn k6_paths_update_3() {
    paths_update_case::<3>();
}

#[kani::proof]
#[kani::unwind(8)]
fn k6_twin_must_fail() {
    let mut m = new_map();
    let mut w = setup(&mut m, [(0, 1), (2, 0)]);
    let order = walk_and_check(&mut m, &mut w, lit(0));
    assert!(order[0] == usize::MAX, "vacuity witness");
    std::mem::forget(m);
}

// ---- generated dispatch (ordered pairs of distinct literal ids over 0..6) and instances follow ---------------
