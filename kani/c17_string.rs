// C17 — Rust side of the FFI String / Slice.  Attached as a child module of `string`.
use super::*;
use crate::slice::Slice;

fn ascii(b: u8) -> bool {
    b >= 1 && b < 128
}

fn string_case<const N: usize>() {
    let bytes: [u8; N] = kani::any();
    let mut i = 0;
    while i < N {
        kani::assume(ascii(bytes[i]));
        i += 1;
    }
    let s = core::str::from_utf8(&bytes).unwrap();
    let f = String::from(s);
    assert!(f.len() == N, "len excludes the NUL terminator");
    assert!(f.is_empty() == (N == 0));
    let back = f.as_str().as_bytes();
    assert!(back.len() == N);
    let mut i = 0;
    while i < N {
        assert!(back[i] == bytes[i], "round trip");
        i += 1;
    }
    // NUL-terminated: the byte after the contents, as C++ reads it through resolvo_string_bytes
    if N > 0 {
        // (for the empty string resolvo_string_bytes returns a C string literal, which Kani 0.68 cannot encode)
        let p = resolvo_string_bytes(&f);
        unsafe {
            assert!(*p.add(N) == 0, "NUL terminated");
            assert!(*p == bytes[0]);
        }
    } else {
        unsafe {
            assert!(*f.as_ptr() == 0, "NUL terminated");
        }
    }
    let g = f.clone();
    assert!(g.len() == N);
    kani::cover!(N == 0 || bytes[0] == 127, "extreme byte");
    drop(f);
    drop(g);
}

#[kani::proof]
#[kani::unwind(20)]
fn c17_string_0() {
    string_case::<0>();
}
#[kani::proof]
#[kani::unwind(20)]
fn c17_string_1() {
    string_case::<1>();
}
#[kani::proof]
#[kani::unwind(20)]
fn c17_string_2() {
    string_case::<2>();
}
fn slice_case<const N: usize>() {
    let data: [u32; N] = kani::any();
    let s = Slice::from_slice(&data[..]);
    let back = s.as_slice();
    assert!(back.len() == N);
    let mut i = 0;
    while i < N {
        assert!(back[i] == data[i]);
        i += 1;
    }
    let c = s; // Copy
    assert!(c.as_slice().len() == N);
    let d: Slice<'_, u32> = Slice::default();
    assert!(d.as_slice().is_empty());
    kani::cover!(true, "reached");
}

#[kani::proof]
#[kani::unwind(8)]
fn c17_slice_0() {
    slice_case::<0>();
}
#[kani::proof]
#[kani::unwind(8)]
fn c17_slice_3() {
    slice_case::<3>();
}

#[kani::proof]
#[kani::unwind(20)]
fn c17_str_twin_must_fail() {
    let bytes: [u8; 0] = [];
    let s = core::str::from_utf8(&bytes).unwrap();
    let f = String::from(s);
    assert!(f.len() == 1, "vacuity witness");
    drop(f);
}
