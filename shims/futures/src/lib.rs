//! Verification shim for the subset of `futures` that resolvo uses (DESIGN.md section 8).
//!
//! * `FuturesUnordered`: a `Vec` of pending futures.  `next()` polls them in push order and yields the first one
//!   that is ready (the real crate polls newly pushed futures in push order too; with a provider that never yields
//!   this is the only schedule there is).  With `cfg(verif_sched)` the position at which the scan starts comes from
//!   `verif_sched_pick`, which a harness can make nondeterministic: completion order becomes a symbolic input.
//! * `try_join_all`: polls every unfinished future on each poll, fails fast on the first `Err`, returns results in
//!   input order - as documented for the real one.
//! * `now_or_never`: one poll with a no-op waker.
use std::future::Future;
use std::pin::Pin;
use std::task::{Context, Poll, Waker};

pub mod future {
    use super::*;
    pub type LocalBoxFuture<'a, T> = Pin<Box<dyn Future<Output = T> + 'a>>;
    pub type BoxFuture<'a, T> = Pin<Box<dyn Future<Output = T> + Send + 'a>>;

    pub struct TryJoinAll<F: Future<Output = Result<T, E>>, T, E> {
        futs: Vec<Option<Pin<Box<F>>>>,
        results: Vec<Option<T>>,
    }
    impl<F: Future<Output = Result<T, E>>, T, E> Unpin for TryJoinAll<F, T, E> {}
    pub fn try_join_all<I, F, T, E>(iter: I) -> TryJoinAll<F, T, E>
    where
        I: IntoIterator<Item = F>,
        F: Future<Output = Result<T, E>>,
    {
        let futs: Vec<Option<Pin<Box<F>>>> = iter.into_iter().map(|f| Some(Box::pin(f))).collect();
        let mut results = Vec::with_capacity(futs.len());
        for _ in 0..futs.len() {
            results.push(None);
        }
        TryJoinAll { futs, results }
    }
    impl<F: Future<Output = Result<T, E>>, T, E> Future for TryJoinAll<F, T, E> {
        type Output = Result<Vec<T>, E>;
        fn poll(mut self: Pin<&mut Self>, cx: &mut Context<'_>) -> Poll<Self::Output> {
            let this = &mut *self;
            let mut pending = false;
            let mut i = 0;
            while i < this.futs.len() {
                if let Some(f) = this.futs[i].as_mut() {
                    match f.as_mut().poll(cx) {
                        Poll::Ready(Ok(v)) => {
                            this.results[i] = Some(v);
                            this.futs[i] = None;
                        }
                        Poll::Ready(Err(e)) => return Poll::Ready(Err(e)),
                        Poll::Pending => pending = true,
                    }
                }
                i += 1;
            }
            if pending {
                Poll::Pending
            } else {
                Poll::Ready(Ok(this.results.iter_mut().map(|r| r.take().expect("polled after completion")).collect()))
            }
        }
    }

    pub fn ready<T>(t: T) -> std::future::Ready<T> {
        std::future::ready(t)
    }
}

pub mod stream {
    use super::*;
    pub struct FuturesUnordered<F> {
        pub(crate) pending: Vec<F>,
    }
    impl<F> Default for FuturesUnordered<F> {
        fn default() -> Self {
            FuturesUnordered { pending: Vec::new() }
        }
    }
    impl<F> FuturesUnordered<F> {
        pub fn new() -> Self {
            Self::default()
        }
        pub fn push(&mut self, f: F) {
            self.pending.push(f)
        }
        pub fn len(&self) -> usize {
            self.pending.len()
        }
        pub fn is_empty(&self) -> bool {
            self.pending.is_empty()
        }
    }
    pub struct Next<'a, F> {
        pub(crate) s: &'a mut FuturesUnordered<F>,
    }
    impl<F> Unpin for Next<'_, F> {}
    #[cfg(verif_sched)]
    extern "Rust" {
        /// supplied by the harness crate: which pending future (index < n) is polled first
        fn verif_sched_pick(n: usize) -> usize;
    }
    impl<F: Future + Unpin> Future for Next<'_, F> {
        type Output = Option<F::Output>;
        fn poll(self: Pin<&mut Self>, cx: &mut Context<'_>) -> Poll<Self::Output> {
            let s = &mut *self.get_mut().s;
            let n = s.pending.len();
            if n == 0 {
                return Poll::Ready(None);
            }
            #[cfg(verif_sched)]
            let start = unsafe { verif_sched_pick(n) } % n;
            #[cfg(not(verif_sched))]
            let start = 0;
            let mut k = 0;
            while k < n {
                let i = (start + k) % n;
                if let Poll::Ready(v) = Pin::new(&mut s.pending[i]).poll(cx) {
                    // `remove` keeps the push order of the others
                    drop(s.pending.remove(i));
                    return Poll::Ready(Some(v));
                }
                k += 1;
            }
            Poll::Pending
        }
    }
}

pub trait StreamExt {
    type Fut;
    fn next(&mut self) -> stream::Next<'_, Self::Fut>;
}
impl<F: Future + Unpin> StreamExt for stream::FuturesUnordered<F> {
    type Fut = F;
    fn next(&mut self) -> stream::Next<'_, F> {
        stream::Next { s: self }
    }
}

pub trait FutureExt: Future {
    fn boxed_local<'a>(self) -> future::LocalBoxFuture<'a, Self::Output>
    where
        Self: Sized + 'a,
    {
        Box::pin(self)
    }
    fn boxed<'a>(self) -> future::BoxFuture<'a, Self::Output>
    where
        Self: Sized + Send + 'a,
    {
        Box::pin(self)
    }
    fn now_or_never(self) -> Option<Self::Output>
    where
        Self: Sized,
    {
        let mut cx = Context::from_waker(Waker::noop());
        let mut this = std::pin::pin!(self);
        match this.as_mut().poll(&mut cx) {
            Poll::Ready(v) => Some(v),
            Poll::Pending => None,
        }
    }
}
impl<F: Future + ?Sized> FutureExt for F {}
