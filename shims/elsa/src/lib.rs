//! Verification shim for `elsa::FrozenMap` (DESIGN.md section 8): an insert-only association list behind an
//! `UnsafeCell`, handing out `&V::Target` exactly like elsa does (sound for the same reason: `V: StableDeref`, so
//! the pointee does not move when the entry vector reallocates).  As in elsa, `insert` on an existing key keeps the
//! old value and returns it.
use std::borrow::Borrow;
use std::cell::UnsafeCell;
use std::marker::PhantomData;
use std::ops::Deref;

/// # Safety
/// the address of `*self` must not change when `self` is moved
pub unsafe trait StableDeref: Deref {}
unsafe impl<T> StableDeref for Vec<T> {}
unsafe impl<T: ?Sized> StableDeref for Box<T> {}
unsafe impl StableDeref for String {}
unsafe impl<T: ?Sized> StableDeref for std::rc::Rc<T> {}

pub struct FrozenMap<K, V, S = ()> {
    entries: UnsafeCell<Vec<(K, V)>>,
    _s: PhantomData<S>,
}
impl<K, V, S> Default for FrozenMap<K, V, S> {
    fn default() -> Self {
        FrozenMap { entries: UnsafeCell::new(Vec::new()), _s: PhantomData }
    }
}
impl<K, V, S> FrozenMap<K, V, S> {
    pub fn new() -> Self {
        Self::default()
    }
    pub fn len(&self) -> usize {
        unsafe { (*self.entries.get()).len() }
    }
    pub fn is_empty(&self) -> bool {
        self.len() == 0
    }
    pub fn as_mut(&mut self) -> &mut Vec<(K, V)> {
        self.entries.get_mut()
    }
}
impl<K: Eq, V: StableDeref, S> FrozenMap<K, V, S> {
    fn pos<Q: ?Sized + Eq>(&self, k: &Q) -> Option<usize>
    where
        K: Borrow<Q>,
    {
        let entries = unsafe { &*self.entries.get() };
        let mut i = 0;
        while i < entries.len() {
            if entries[i].0.borrow() == k {
                return Some(i);
            }
            i += 1;
        }
        None
    }
    pub fn insert(&self, k: K, v: V) -> &V::Target {
        let i = match self.pos(&k) {
            Some(i) => i,
            None => unsafe {
                let entries = &mut *self.entries.get();
                entries.push((k, v));
                entries.len() - 1
            },
        };
        unsafe { &*(&*(*self.entries.get())[i].1 as *const V::Target) }
    }
    pub fn get<Q: ?Sized + Eq>(&self, k: &Q) -> Option<&V::Target>
    where
        K: Borrow<Q>,
    {
        self.pos(k).map(|i| unsafe { &*(&*(*self.entries.get())[i].1 as *const V::Target) })
    }
}
impl<K: Eq + Borrow<Q>, Q: ?Sized + Eq, V: StableDeref, S> std::ops::Index<&Q> for FrozenMap<K, V, S> {
    type Output = V::Target;
    fn index(&self, k: &Q) -> &V::Target {
        self.get(k).expect("attempted to index FrozenMap with unknown key")
    }
}
