//! Verification shim for `indexmap` (DESIGN.md section 8): insertion-ordered association lists.  Iteration order
//! is insertion order, as in the real crate (this is part of indexmap's contract, which resolvo's decide() relies on).
use std::borrow::Borrow;
use std::marker::PhantomData;

pub struct IndexMap<K, V, S = ()> {
    entries: Vec<(K, V)>,
    _s: PhantomData<S>,
}
impl<K, V, S> Default for IndexMap<K, V, S> {
    fn default() -> Self {
        IndexMap { entries: Vec::new(), _s: PhantomData }
    }
}
impl<K, V, S> IndexMap<K, V, S> {
    pub fn new() -> Self {
        Self::default()
    }
    pub fn len(&self) -> usize {
        self.entries.len()
    }
    pub fn is_empty(&self) -> bool {
        self.entries.is_empty()
    }
    pub fn capacity(&self) -> usize {
        self.entries.capacity()
    }
    pub fn iter(&self) -> impl DoubleEndedIterator<Item = (&K, &V)> + '_ {
        self.entries.iter().map(|(k, v)| (k, v))
    }
    pub fn keys(&self) -> impl DoubleEndedIterator<Item = &K> + '_ {
        self.entries.iter().map(|(k, _)| k)
    }
    pub fn values(&self) -> impl DoubleEndedIterator<Item = &V> + '_ {
        self.entries.iter().map(|(_, v)| v)
    }
    pub fn get_index(&self, i: usize) -> Option<(&K, &V)> {
        self.entries.get(i).map(|(k, v)| (k, v))
    }
}
impl<K: Eq, V, S> IndexMap<K, V, S> {
    pub fn get_index_of<Q: ?Sized + Eq>(&self, k: &Q) -> Option<usize>
    where
        K: Borrow<Q>,
    {
        let mut i = 0;
        while i < self.entries.len() {
            if self.entries[i].0.borrow() == k {
                return Some(i);
            }
            i += 1;
        }
        None
    }
    pub fn insert_full(&mut self, k: K, v: V) -> (usize, Option<V>) {
        match self.get_index_of(&k) {
            Some(i) => (i, Some(std::mem::replace(&mut self.entries[i].1, v))),
            None => {
                self.entries.push((k, v));
                (self.entries.len() - 1, None)
            }
        }
    }
    pub fn insert(&mut self, k: K, v: V) -> Option<V> {
        self.insert_full(k, v).1
    }
    pub fn get<Q: ?Sized + Eq>(&self, k: &Q) -> Option<&V>
    where
        K: Borrow<Q>,
    {
        self.get_index_of(k).map(|i| &self.entries[i].1)
    }
    pub fn get_mut<Q: ?Sized + Eq>(&mut self, k: &Q) -> Option<&mut V>
    where
        K: Borrow<Q>,
    {
        match self.get_index_of(k) {
            Some(i) => Some(&mut self.entries[i].1),
            None => None,
        }
    }
    pub fn contains_key<Q: ?Sized + Eq>(&self, k: &Q) -> bool
    where
        K: Borrow<Q>,
    {
        self.get_index_of(k).is_some()
    }
    pub fn entry(&mut self, k: K) -> map::Entry<'_, K, V> {
        match self.get_index_of(&k) {
            Some(i) => map::Entry::Occupied(map::OccupiedEntry { entries: &mut self.entries, idx: i }),
            None => map::Entry::Vacant(map::VacantEntry { entries: &mut self.entries, key: k }),
        }
    }
}
impl<K: Eq + Borrow<Q>, Q: ?Sized + Eq, V, S> std::ops::Index<&Q> for IndexMap<K, V, S> {
    type Output = V;
    fn index(&self, k: &Q) -> &V {
        self.get(k).expect("IndexMap: key not found")
    }
}
pub mod map {
    pub enum Entry<'a, K, V> {
        Occupied(OccupiedEntry<'a, K, V>),
        Vacant(VacantEntry<'a, K, V>),
    }
    pub struct OccupiedEntry<'a, K, V> {
        pub(crate) entries: &'a mut Vec<(K, V)>,
        pub(crate) idx: usize,
    }
    pub struct VacantEntry<'a, K, V> {
        pub(crate) entries: &'a mut Vec<(K, V)>,
        pub(crate) key: K,
    }
    impl<'a, K, V> Entry<'a, K, V> {
        pub fn or_insert_with(self, f: impl FnOnce() -> V) -> &'a mut V {
            match self {
                Entry::Occupied(o) => &mut o.entries[o.idx].1,
                Entry::Vacant(e) => {
                    e.entries.push((e.key, f()));
                    let n = e.entries.len() - 1;
                    &mut e.entries[n].1
                }
            }
        }
        pub fn or_insert(self, v: V) -> &'a mut V {
            self.or_insert_with(|| v)
        }
        pub fn or_default(self) -> &'a mut V
        where
            V: Default,
        {
            self.or_insert_with(V::default)
        }
    }
}

pub struct IndexSet<K, S = ()> {
    map: IndexMap<K, (), S>,
}
impl<K, S> Default for IndexSet<K, S> {
    fn default() -> Self {
        IndexSet { map: IndexMap::default() }
    }
}
impl<K, S> IndexSet<K, S> {
    pub fn new() -> Self {
        Self::default()
    }
    pub fn len(&self) -> usize {
        self.map.len()
    }
    pub fn is_empty(&self) -> bool {
        self.map.is_empty()
    }
    pub fn iter(&self) -> impl DoubleEndedIterator<Item = &K> + '_ {
        self.map.keys()
    }
    pub fn get_index(&self, i: usize) -> Option<&K> {
        self.map.get_index(i).map(|(k, _)| k)
    }
}
impl<K: Eq, S> IndexSet<K, S> {
    pub fn insert_full(&mut self, k: K) -> (usize, bool) {
        let (i, old) = self.map.insert_full(k, ());
        (i, old.is_none())
    }
    pub fn insert(&mut self, k: K) -> bool {
        self.insert_full(k).1
    }
    pub fn contains<Q: ?Sized + Eq>(&self, k: &Q) -> bool
    where
        K: Borrow<Q>,
    {
        self.map.contains_key(k)
    }
    pub fn get_index_of<Q: ?Sized + Eq>(&self, k: &Q) -> Option<usize>
    where
        K: Borrow<Q>,
    {
        self.map.get_index_of(k)
    }
}
