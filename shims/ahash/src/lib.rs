//! Verification shim for `ahash` (DESIGN.md section 8).
//!
//! `HashMap` / `HashSet` are association lists (`Vec<(K, V)>`, linear search, `==` on keys) with the subset of
//! the `std::collections` API that resolvo uses.  Semantics kept: map laws (insert/get/remove/contains/len/entry).
//! Semantics NOT kept: hashing, capacity, iteration order (here: insertion order, `remove` preserves order).
//! Nothing in this file is resolvo code; it replaces a *library* so that the real resolvo code above it can be
//! executed symbolically (hashbrown does not finish under CBMC even for one concrete insert, DESIGN P7).
use std::borrow::Borrow;
use std::hash::{BuildHasher, Hasher};
use std::marker::PhantomData;

#[derive(Clone, Copy, Debug, Default)]
pub struct RandomState;
impl RandomState {
    pub fn new() -> Self {
        RandomState
    }
    pub fn with_seeds(_a: u64, _b: u64, _c: u64, _d: u64) -> Self {
        RandomState
    }
}
#[derive(Default)]
pub struct NoHasher(u64);
impl Hasher for NoHasher {
    fn finish(&self) -> u64 {
        self.0
    }
    fn write(&mut self, _bytes: &[u8]) {}
}
impl BuildHasher for RandomState {
    type Hasher = NoHasher;
    fn build_hasher(&self) -> NoHasher {
        NoHasher(0)
    }
}

pub struct Map<K, V, S = RandomState> {
    entries: Vec<(K, V)>,
    _s: PhantomData<S>,
}
/// the three-parameter form `std::collections::Map<K, V, S>` is replaced by (frozen_copy_map.rs)

/// like the real crate: a two-parameter alias with the hasher fixed
pub type StdHashMap<K, V, S> = Map<K, V, S>;
pub type HashMap<K, V> = Map<K, V, RandomState>;
pub type HashSet<K> = Set<K, RandomState>;

impl<K, V, S> Default for Map<K, V, S> {
    fn default() -> Self {
        Map { entries: Vec::new(), _s: PhantomData }
    }
}
impl<K: Clone, V: Clone, S> Clone for Map<K, V, S> {
    fn clone(&self) -> Self {
        Map { entries: self.entries.clone(), _s: PhantomData }
    }
}
impl<K: std::fmt::Debug, V: std::fmt::Debug, S> std::fmt::Debug for Map<K, V, S> {
    fn fmt(&self, f: &mut std::fmt::Formatter<'_>) -> std::fmt::Result {
        f.debug_map().entries(self.entries.iter().map(|(k, v)| (k, v))).finish()
    }
}
impl<K: Eq, V: PartialEq, S> PartialEq for Map<K, V, S> {
    fn eq(&self, o: &Self) -> bool {
        self.len() == o.len() && self.entries.iter().all(|(k, v)| o.get(k) == Some(v))
    }
}
impl<K: Eq, V: Eq, S> Eq for Map<K, V, S> {}

impl<K, V, S> Map<K, V, S> {
    pub fn new() -> Self {
        Self::default()
    }
    pub fn with_capacity(n: usize) -> Self {
        Map { entries: Vec::with_capacity(n), _s: PhantomData }
    }
    pub fn len(&self) -> usize {
        self.entries.len()
    }
    pub fn is_empty(&self) -> bool {
        self.entries.is_empty()
    }
    pub fn capacity(&self) -> usize {
        self.entries.capacity()
    }
    pub fn clear(&mut self) {
        self.entries.clear()
    }
    pub fn iter(&self) -> impl Iterator<Item = (&K, &V)> + '_ {
        self.entries.iter().map(|(k, v)| (k, v))
    }
    pub fn iter_mut(&mut self) -> impl Iterator<Item = (&K, &mut V)> + '_ {
        self.entries.iter_mut().map(|(k, v)| (&*k, v))
    }
    pub fn keys(&self) -> impl Iterator<Item = &K> + '_ {
        self.entries.iter().map(|(k, _)| k)
    }
    pub fn values(&self) -> impl Iterator<Item = &V> + '_ {
        self.entries.iter().map(|(_, v)| v)
    }
    pub fn values_mut(&mut self) -> impl Iterator<Item = &mut V> + '_ {
        self.entries.iter_mut().map(|(_, v)| v)
    }
    pub fn into_keys(self) -> impl Iterator<Item = K> {
        self.entries.into_iter().map(|(k, _)| k)
    }
    pub fn into_values(self) -> impl Iterator<Item = V> {
        self.entries.into_iter().map(|(_, v)| v)
    }
}
impl<K: Eq, V, S> Map<K, V, S> {
    fn pos<Q: ?Sized + Eq>(&self, k: &Q) -> Option<usize>
    where
        K: Borrow<Q>,
    {
        let mut i = 0;
        while i < self.entries.len() {
            if self.entries[i].0.borrow() == k {
                return Some(i);
            }
            i += 1;
        }
        None
    }
    pub fn insert(&mut self, k: K, v: V) -> Option<V> {
        match self.pos(&k) {
            Some(i) => Some(std::mem::replace(&mut self.entries[i].1, v)),
            None => {
                self.entries.push((k, v));
                None
            }
        }
    }
    pub fn get<Q: ?Sized + Eq>(&self, k: &Q) -> Option<&V>
    where
        K: Borrow<Q>,
    {
        self.pos(k).map(|i| &self.entries[i].1)
    }
    pub fn get_mut<Q: ?Sized + Eq>(&mut self, k: &Q) -> Option<&mut V>
    where
        K: Borrow<Q>,
    {
        match self.pos(k) {
            Some(i) => Some(&mut self.entries[i].1),
            None => None,
        }
    }
    pub fn contains_key<Q: ?Sized + Eq>(&self, k: &Q) -> bool
    where
        K: Borrow<Q>,
    {
        self.pos(k).is_some()
    }
    pub fn remove<Q: ?Sized + Eq>(&mut self, k: &Q) -> Option<V>
    where
        K: Borrow<Q>,
    {
        self.pos(k).map(|i| self.entries.remove(i).1)
    }
    pub fn retain(&mut self, mut f: impl FnMut(&K, &mut V) -> bool) {
        self.entries.retain_mut(|(k, v)| f(k, v))
    }
    pub fn entry(&mut self, k: K) -> hash_map::Entry<'_, K, V> {
        match self.pos(&k) {
            Some(i) => hash_map::Entry::Occupied(hash_map::OccupiedEntry { entries: &mut self.entries, idx: i }),
            None => hash_map::Entry::Vacant(hash_map::VacantEntry { entries: &mut self.entries, key: k }),
        }
    }
}
impl<K: Eq + Borrow<Q>, Q: ?Sized + Eq, V, S> std::ops::Index<&Q> for Map<K, V, S> {
    type Output = V;
    fn index(&self, k: &Q) -> &V {
        self.get(k).expect("no entry found for key")
    }
}
impl<K: Eq, V, S> Extend<(K, V)> for Map<K, V, S> {
    fn extend<T: IntoIterator<Item = (K, V)>>(&mut self, iter: T) {
        for (k, v) in iter {
            self.insert(k, v);
        }
    }
}
impl<K: Eq, V, S> FromIterator<(K, V)> for Map<K, V, S> {
    fn from_iter<T: IntoIterator<Item = (K, V)>>(iter: T) -> Self {
        let mut m = Self::default();
        m.extend(iter);
        m
    }
}
impl<K, V, S> IntoIterator for Map<K, V, S> {
    type Item = (K, V);
    type IntoIter = std::vec::IntoIter<(K, V)>;
    fn into_iter(self) -> Self::IntoIter {
        self.entries.into_iter()
    }
}
impl<'a, K, V, S> IntoIterator for &'a Map<K, V, S> {
    type Item = (&'a K, &'a V);
    type IntoIter = std::iter::Map<std::slice::Iter<'a, (K, V)>, fn(&'a (K, V)) -> (&'a K, &'a V)>;
    fn into_iter(self) -> Self::IntoIter {
        fn split<'a, K, V>(e: &'a (K, V)) -> (&'a K, &'a V) {
            (&e.0, &e.1)
        }
        self.entries.iter().map(split as fn(&'a (K, V)) -> (&'a K, &'a V))
    }
}

pub mod hash_map {
    pub enum Entry<'a, K, V> {
        Occupied(OccupiedEntry<'a, K, V>),
        Vacant(VacantEntry<'a, K, V>),
    }
    pub struct OccupiedEntry<'a, K, V> {
        pub(crate) entries: &'a mut Vec<(K, V)>,
        pub(crate) idx: usize,
    }
    pub struct VacantEntry<'a, K, V> {
        pub(crate) entries: &'a mut Vec<(K, V)>,
        pub(crate) key: K,
    }
    impl<'a, K, V> OccupiedEntry<'a, K, V> {
        pub fn get(&self) -> &V {
            &self.entries[self.idx].1
        }
        pub fn get_mut(&mut self) -> &mut V {
            &mut self.entries[self.idx].1
        }
        pub fn into_mut(self) -> &'a mut V {
            &mut self.entries[self.idx].1
        }
        pub fn key(&self) -> &K {
            &self.entries[self.idx].0
        }
        pub fn insert(&mut self, v: V) -> V {
            std::mem::replace(&mut self.entries[self.idx].1, v)
        }
    }
    impl<'a, K, V> VacantEntry<'a, K, V> {
        pub fn insert(self, v: V) -> &'a mut V {
            self.entries.push((self.key, v));
            let n = self.entries.len() - 1;
            &mut self.entries[n].1
        }
        pub fn key(&self) -> &K {
            &self.key
        }
    }
    impl<'a, K, V> Entry<'a, K, V> {
        pub fn or_insert(self, v: V) -> &'a mut V {
            match self {
                Entry::Occupied(o) => o.into_mut(),
                Entry::Vacant(e) => e.insert(v),
            }
        }
        pub fn or_insert_with(self, f: impl FnOnce() -> V) -> &'a mut V {
            match self {
                Entry::Occupied(o) => o.into_mut(),
                Entry::Vacant(e) => e.insert(f()),
            }
        }
        pub fn or_insert_with_key(self, f: impl FnOnce(&K) -> V) -> &'a mut V {
            match self {
                Entry::Occupied(o) => o.into_mut(),
                Entry::Vacant(e) => {
                    let v = f(&e.key);
                    e.insert(v)
                }
            }
        }
        pub fn or_default(self) -> &'a mut V
        where
            V: Default,
        {
            self.or_insert_with(V::default)
        }
    }
}

pub struct Set<K, S = RandomState> {
    map: Map<K, (), S>,
}
impl<K, S> Default for Set<K, S> {
    fn default() -> Self {
        Set { map: Map::default() }
    }
}
impl<K: Clone, S> Clone for Set<K, S> {
    fn clone(&self) -> Self {
        Set { map: self.map.clone() }
    }
}
impl<K: std::fmt::Debug, S> std::fmt::Debug for Set<K, S> {
    fn fmt(&self, f: &mut std::fmt::Formatter<'_>) -> std::fmt::Result {
        f.debug_set().entries(self.map.keys()).finish()
    }
}
impl<K: Eq, S> PartialEq for Set<K, S> {
    fn eq(&self, o: &Self) -> bool {
        self.len() == o.len() && self.iter().all(|k| o.contains(k))
    }
}
impl<K: Eq, S> Eq for Set<K, S> {}
impl<K, S> Set<K, S> {
    pub fn new() -> Self {
        Self::default()
    }
    pub fn with_capacity(n: usize) -> Self {
        Set { map: Map::with_capacity(n) }
    }
    pub fn len(&self) -> usize {
        self.map.len()
    }
    pub fn is_empty(&self) -> bool {
        self.map.is_empty()
    }
    pub fn clear(&mut self) {
        self.map.clear()
    }
    pub fn iter(&self) -> impl Iterator<Item = &K> + '_ {
        self.map.keys()
    }
}
impl<K: Eq, S> Set<K, S> {
    /// true if the value was newly inserted
    pub fn insert(&mut self, k: K) -> bool {
        self.map.insert(k, ()).is_none()
    }
    pub fn contains<Q: ?Sized + Eq>(&self, k: &Q) -> bool
    where
        K: Borrow<Q>,
    {
        self.map.contains_key(k)
    }
    pub fn remove<Q: ?Sized + Eq>(&mut self, k: &Q) -> bool
    where
        K: Borrow<Q>,
    {
        self.map.remove(k).is_some()
    }
}
impl<K: Eq, S> Extend<K> for Set<K, S> {
    fn extend<T: IntoIterator<Item = K>>(&mut self, iter: T) {
        for k in iter {
            self.insert(k);
        }
    }
}
impl<K: Eq, S> FromIterator<K> for Set<K, S> {
    fn from_iter<T: IntoIterator<Item = K>>(iter: T) -> Self {
        let mut s = Self::default();
        s.extend(iter);
        s
    }
}
impl<K, S> IntoIterator for Set<K, S> {
    type Item = K;
    type IntoIter = std::iter::Map<std::vec::IntoIter<(K, ())>, fn((K, ())) -> K>;
    fn into_iter(self) -> Self::IntoIter {
        fn key<K>(e: (K, ())) -> K {
            e.0
        }
        self.map.entries.into_iter().map(key as fn((K, ())) -> K)
    }
}
impl<'a, K, S> IntoIterator for &'a Set<K, S> {
    type Item = &'a K;
    type IntoIter = std::iter::Map<std::slice::Iter<'a, (K, ())>, fn(&'a (K, ())) -> &'a K>;
    fn into_iter(self) -> Self::IntoIter {
        fn key<'a, K>(e: &'a (K, ())) -> &'a K {
            &e.0
        }
        self.map.entries.iter().map(key as fn(&'a (K, ())) -> &'a K)
    }
}
