//! Verification shim for `tracing`: every logging macro expands to nothing (arguments are not evaluated, exactly
//! as with the real crate when no subscriber enables the level).
#[macro_export]
macro_rules! trace { ($($t:tt)*) => {{}}; }
#[macro_export]
macro_rules! debug { ($($t:tt)*) => {{}}; }
#[macro_export]
macro_rules! info { ($($t:tt)*) => {{}}; }
#[macro_export]
macro_rules! warn { ($($t:tt)*) => {{}}; }
#[macro_export]
macro_rules! error { ($($t:tt)*) => {{}}; }
