//! Verification shim for `event_listener::Event` (single-threaded use only, as in resolvo's SolverCache):
//! `listen()` returns a future that completes once `notify` has been called after the listener was created.
use std::cell::{Cell, RefCell};
use std::future::Future;
use std::pin::Pin;
use std::rc::Rc;
use std::task::{Context, Poll, Waker};

struct Inner {
    generation: Cell<u64>,
    wakers: RefCell<Vec<Waker>>,
}
pub struct Event {
    inner: Rc<Inner>,
}
impl Default for Event {
    fn default() -> Self {
        Event::new()
    }
}
impl Event {
    pub fn new() -> Self {
        Event { inner: Rc::new(Inner { generation: Cell::new(0), wakers: RefCell::new(Vec::new()) }) }
    }
    pub fn listen(&self) -> EventListener {
        EventListener { inner: self.inner.clone(), seen: self.inner.generation.get() }
    }
    pub fn notify(&self, _n: usize) -> usize {
        self.inner.generation.set(self.inner.generation.get() + 1);
        let ws: Vec<Waker> = std::mem::take(&mut *self.inner.wakers.borrow_mut());
        let n = ws.len();
        for w in ws {
            w.wake();
        }
        n
    }
}
pub struct EventListener {
    inner: Rc<Inner>,
    seen: u64,
}
impl Future for EventListener {
    type Output = ();
    fn poll(self: Pin<&mut Self>, cx: &mut Context<'_>) -> Poll<()> {
        if self.inner.generation.get() != self.seen {
            Poll::Ready(())
        } else {
            self.inner.wakers.borrow_mut().push(cx.waker().clone());
            Poll::Pending
        }
    }
}
