//! Verification shim for `bitvec::vec::BitVec`: a `Vec<bool>` with the four methods resolvo's SolverCache uses.
pub mod vec {
    #[derive(Default, Clone, Debug)]
    pub struct BitVec {
        bits: Vec<bool>,
    }
    impl BitVec {
        pub fn new() -> Self {
            Self::default()
        }
        pub fn len(&self) -> usize {
            self.bits.len()
        }
        pub fn is_empty(&self) -> bool {
            self.bits.is_empty()
        }
        pub fn resize(&mut self, n: usize, v: bool) {
            self.bits.resize(n, v)
        }
        /// panics when out of range, like the real one
        pub fn set(&mut self, i: usize, v: bool) {
            self.bits[i] = v
        }
        pub fn get(&self, i: usize) -> Option<&bool> {
            self.bits.get(i)
        }
    }
}
