//! Certificate driver (DESIGN section 8.2): reads universes (one JSON object per line) from stdin, runs the REAL
//! `Solver::solve` of the scratch copy on each, and prints one JSON line per universe with the verdict, the solution,
//! the complete clause database as the solver sees it (`verif_dump`, attached under cfg(verif_cert)), the learnt
//! clauses with their antecedents, the conflict graph and the provider call log.  Nothing is decided here: the
//! Python side turns these into SMT queries.
use std::any::Any;
use std::cell::RefCell;
use std::fmt::Display;
use std::io::{BufRead, Write};

use petgraph::visit::EdgeRef;
use resolvo::conflict::{ConflictCause, ConflictEdge, ConflictNode};
use resolvo::{
    Candidates, Dependencies, DependencyProvider, HintDependenciesAvailable, Interner, KnownDependencies, NameId,
    Problem, Requirement, SolvableId, Solver, SolverCache, StringId, UnsolvableOrCancelled, VersionSetId,
    VersionSetUnionId,
};
use serde_json::{json, Value};

#[derive(Default)]
struct Pkg {
    exists: bool,
    cands: Vec<u32>,
    favored: Option<u32>,
    locked: Option<u32>,
    excluded: Vec<u32>,
    hint: Option<Vec<u32>>, // None = HintDependenciesAvailable::None; Some(all cands) => All is chosen by "hint_all"
    hint_all: bool,
    rank: Vec<u32>, // sort_candidates order (best first)
}
#[derive(Default)]
struct Uni {
    pkgs: Vec<Pkg>,
    solv_name: Vec<u32>,
    solv_deps: Vec<Option<(Vec<Requirement>, Vec<VersionSetId>)>>, // None = Unknown
    vs_name: Vec<u32>,
    vs_match: Vec<Vec<u32>>,
    unions: Vec<Vec<u32>>,
    cancel_after: std::cell::Cell<Option<usize>>, // number of provider fetch calls (of the current solve) after which should_cancel fires
    calls_at_solve_start: std::cell::Cell<usize>,
    calls: RefCell<Vec<(u8, u32)>>, // 0 get_candidates(name), 1 get_dependencies(solvable), 2 filter(vs), 3 sort, 4 cancel fired
}

fn req_of(v: &Value) -> Requirement {
    if let Some(s) = v.get("s") {
        Requirement::Single(VersionSetId(s.as_u64().unwrap() as u32))
    } else {
        Requirement::Union(VersionSetUnionId(v["u"].as_u64().unwrap() as u32))
    }
}
fn u32s(v: &Value) -> Vec<u32> {
    v.as_array().map(|a| a.iter().map(|x| x.as_u64().unwrap() as u32).collect()).unwrap_or_default()
}

impl Uni {
    fn from_json(v: &Value) -> Uni {
        let mut u = Uni::default();
        for p in v["packages"].as_array().unwrap() {
            let cands = u32s(&p["cands"]);
            let hint_all = p["hint"].as_str() == Some("all");
            let hint = if p["hint"].is_array() { Some(u32s(&p["hint"])) } else { None };
            u.pkgs.push(Pkg {
                exists: p["exists"].as_bool().unwrap_or(true),
                rank: if p["rank"].is_array() { u32s(&p["rank"]) } else { cands.clone() },
                cands,
                favored: p["favored"].as_u64().map(|x| x as u32),
                locked: p["locked"].as_u64().map(|x| x as u32),
                excluded: u32s(&p["excluded"]),
                hint,
                hint_all,
            });
        }
        for s in v["solvables"].as_array().unwrap() {
            u.solv_name.push(s["name"].as_u64().unwrap() as u32);
            if s["deps"].is_null() {
                u.solv_deps.push(None);
            } else {
                let reqs = s["deps"]["req"].as_array().unwrap().iter().map(req_of).collect();
                let cons = u32s(&s["deps"]["con"]).into_iter().map(VersionSetId).collect();
                u.solv_deps.push(Some((reqs, cons)));
            }
        }
        for vs in v["version_sets"].as_array().unwrap() {
            u.vs_name.push(vs["name"].as_u64().unwrap() as u32);
            u.vs_match.push(u32s(&vs["match"]));
        }
        for un in v["unions"].as_array().unwrap() {
            u.unions.push(u32s(un));
        }
        u
    }
}

impl Interner for Uni {
    fn display_solvable(&self, s: SolvableId) -> impl Display + '_ {
        format!("s{}", s.0)
    }
    fn display_name(&self, name: NameId) -> impl Display + '_ {
        format!("p{}", name.0)
    }
    fn display_version_set(&self, vs: VersionSetId) -> impl Display + '_ {
        format!("vs{}", vs.0)
    }
    fn display_string(&self, s: StringId) -> impl Display + '_ {
        format!("str{}", s.0)
    }
    fn version_set_name(&self, vs: VersionSetId) -> NameId {
        NameId(self.vs_name[vs.0 as usize])
    }
    fn solvable_name(&self, s: SolvableId) -> NameId {
        NameId(self.solv_name[s.0 as usize])
    }
    fn version_sets_in_union(&self, u: VersionSetUnionId) -> impl Iterator<Item = VersionSetId> {
        self.unions[u.0 as usize].iter().map(|&v| VersionSetId(v))
    }
}

impl DependencyProvider for Uni {
    async fn filter_candidates(&self, candidates: &[SolvableId], vs: VersionSetId, inverse: bool) -> Vec<SolvableId> {
        self.calls.borrow_mut().push((2, vs.0));
        let m = &self.vs_match[vs.0 as usize];
        candidates.iter().copied().filter(|c| m.contains(&c.0) != inverse).collect()
    }
    async fn get_candidates(&self, name: NameId) -> Option<Candidates> {
        self.calls.borrow_mut().push((0, name.0));
        let p = self.pkgs.get(name.0 as usize)?;
        if !p.exists {
            return None;
        }
        Some(Candidates {
            candidates: p.cands.iter().map(|&c| SolvableId(c)).collect(),
            favored: p.favored.map(SolvableId),
            locked: p.locked.map(SolvableId),
            hint_dependencies_available: if p.hint_all {
                HintDependenciesAvailable::All
            } else if let Some(h) = &p.hint {
                HintDependenciesAvailable::Some(h.iter().map(|&c| SolvableId(c)).collect())
            } else {
                HintDependenciesAvailable::None
            },
            excluded: p.excluded.iter().map(|&c| (SolvableId(c), StringId(c))).collect(),
        })
    }
    async fn sort_candidates(&self, _solver: &SolverCache<Self>, solvables: &mut [SolvableId]) {
        self.calls.borrow_mut().push((3, solvables.len() as u32));
        if solvables.is_empty() {
            return;
        }
        let rank = &self.pkgs[self.solv_name[solvables[0].0 as usize] as usize].rank;
        solvables.sort_by_key(|s| rank.iter().position(|&r| r == s.0).unwrap_or(usize::MAX));
    }
    async fn get_dependencies(&self, solvable: SolvableId) -> Dependencies {
        self.calls.borrow_mut().push((1, solvable.0));
        match &self.solv_deps[solvable.0 as usize] {
            None => Dependencies::Unknown(StringId(1000 + solvable.0)),
            Some((r, c)) => Dependencies::Known(KnownDependencies { requirements: r.clone(), constrains: c.clone() }),
        }
    }
    fn should_cancel_with_value(&self) -> Option<Box<dyn Any>> {
        if let Some(n) = self.cancel_after.get() {
            let fetches = self.calls.borrow()[self.calls_at_solve_start.get()..].iter().filter(|c| c.0 <= 1).count();
            if fetches >= n {
                self.calls.borrow_mut().push((4, fetches as u32));
                return Some(Box::new(4242u32));
            }
        }
        None
    }
}

fn req_json(r: Requirement) -> Value {
    match r {
        Requirement::Single(v) => json!({"s": v.0}),
        Requirement::Union(u) => json!({"u": u.0}),
    }
}

fn dump_json(solver: &Solver<Uni>) -> Value {
    let d = solver.verif_dump();
    json!({
        "clauses": d.clauses.iter().map(|c| json!({
            "id": c.id, "kind": c.kind, "lits": c.lits.iter().map(|l| json!([l.0, l.1])).collect::<Vec<_>>(),
            "meta": [c.meta.0, c.meta.1, c.meta.2], "watched": c.has_watches})).collect::<Vec<_>>(),
        "vars": d.vars.iter().map(|v| json!([v.0, v.1, v.2])).collect::<Vec<_>>(),
        "learnt_why": d.learnt_why.iter().map(|(c, w)| json!([c, w])).collect::<Vec<_>>(),
        "neg": d.negative_assertions.iter().map(|(v, c)| json!([v, c])).collect::<Vec<_>>(),
        "added_solvables": d.added_solvables,
        "added_packages": d.added_packages,
        "trail": d.trail.iter().map(|t| json!([t.0, t.1, t.2, t.3])).collect::<Vec<_>>(),
    })
}

fn solve_once(solver: &mut Solver<Uni>, prob: &Value, want_dump: bool) -> Value {
    let reqs: Vec<Requirement> = prob["req"].as_array().unwrap().iter().map(req_of).collect();
    let cons: Vec<VersionSetId> = u32s(&prob["con"]).into_iter().map(VersionSetId).collect();
    let soft: Vec<SolvableId> = u32s(&prob["soft"]).into_iter().map(SolvableId).collect();
    let ncalls_before = solver.provider().calls.borrow().len();
    solver.provider().calls_at_solve_start.set(ncalls_before);
    solver.provider().cancel_after.set(prob["cancel_after"].as_u64().map(|x| x as usize));
    let problem = Problem::new().requirements(reqs).constraints(cons).soft_requirements(soft);
    let r = std::panic::catch_unwind(std::panic::AssertUnwindSafe(|| solver.solve(problem)));
    let mut out = json!({});
    match r {
        Err(p) => {
            let msg = p.downcast_ref::<String>().cloned().or_else(|| p.downcast_ref::<&str>().map(|s| s.to_string()));
            out["result"] = json!("panic");
            out["message"] = json!(msg.unwrap_or_default());
            return out;
        }
        Ok(Ok(sol)) => {
            out["result"] = json!("ok");
            out["solution"] = json!(sol.iter().map(|s| s.0).collect::<Vec<_>>());
        }
        Ok(Err(UnsolvableOrCancelled::Cancelled(v))) => {
            out["result"] = json!("cancelled");
            out["cancel_value"] = json!(v.downcast_ref::<u32>().copied());
        }
        Ok(Err(UnsolvableOrCancelled::Unsolvable(conflict))) => {
            out["result"] = json!("unsolvable");
            if prob["cancel_in_rendering"].as_bool().unwrap_or(false) {
                // the provider asks for cancellation from now on: building the report must not depend on it
                let n = solver.provider().calls.borrow().len();
                solver.provider().calls_at_solve_start.set(n);
                solver.provider().cancel_after.set(Some(0));
            }
            let g = std::panic::catch_unwind(std::panic::AssertUnwindSafe(|| {
                let cg = conflict.graph(solver);
                let gr = &cg.graph;
                let node = |n: petgraph::graph::NodeIndex| match gr[n] {
                    ConflictNode::Solvable(s) => match s.solvable() {
                        Some(s) => json!({"s": s.0}),
                        None => json!("root"),
                    },
                    ConflictNode::UnresolvedDependency => json!("unresolved"),
                    ConflictNode::Excluded(r) => json!({"excluded": r.0}),
                };
                let mut edges = Vec::new();
                for e in gr.edge_references() {
                    let w = match *e.weight() {
                        ConflictEdge::Requires(r) => json!({"requires": req_json(r)}),
                        ConflictEdge::Conflict(ConflictCause::Locked(s)) => json!({"locked": s.0}),
                        ConflictEdge::Conflict(ConflictCause::Constrains(v)) => json!({"constrains": v.0}),
                        ConflictEdge::Conflict(ConflictCause::ForbidMultipleInstances) => json!("forbid"),
                        ConflictEdge::Conflict(ConflictCause::Excluded) => json!("excluded"),
                    };
                    edges.push(json!([e.source().index(), e.target().index(), w]));
                }
                let nodes: Vec<Value> = gr.node_indices().map(|n| json!([n.index(), node(n)])).collect();
                let msg = conflict.display_user_friendly(solver).to_string();
                let mut gv = Vec::new();
                let _ = cg.graphviz(&mut gv, solver.provider(), true);
                json!({"nodes": nodes, "edges": edges, "root": cg.root_node.index(),
                       "unresolved": cg.unresolved_node.map(|n| n.index()), "message_len": msg.len(), "message_lines": msg.lines().count(), "graphviz_len": gv.len()})
            }));
            match g {
                Ok(g) => out["graph"] = g,
                Err(p) => {
                    let msg = p.downcast_ref::<String>().cloned().or_else(|| p.downcast_ref::<&str>().map(|s| s.to_string()));
                    out["graph_panic"] = json!(msg.unwrap_or_default());
                }
            }
        }
    }
    solver.provider().cancel_after.set(None);
    if want_dump {
        out["dump"] = dump_json(solver);
    }
    let calls = solver.provider().calls.borrow();
    out["calls"] = json!(calls[ncalls_before..].iter().map(|c| json!([c.0, c.1])).collect::<Vec<_>>());
    out
}

// ---------------------------------------------------------------------------------------------------------
// C10: asynchronous provider whose outstanding requests complete in an order chosen by a schedule
// ---------------------------------------------------------------------------------------------------------
struct Sched {
    pending: RefCell<Vec<u64>>,
    done: RefCell<Vec<u64>>,
    next_id: std::cell::Cell<u64>,
    rng: std::cell::Cell<u64>,
    policy: u8, // 0 oldest first, 1 newest first, >= 2 pseudo-random with seed `policy`
    max_in_flight: std::cell::Cell<usize>,
    completions: std::cell::Cell<usize>,
    wakers: RefCell<Vec<(u64, std::task::Waker)>>,
}
impl Sched {
    fn new(policy: u8) -> Self {
        Sched {
            pending: RefCell::new(Vec::new()),
            done: RefCell::new(Vec::new()),
            next_id: std::cell::Cell::new(0),
            rng: std::cell::Cell::new(0x9E3779B97F4A7C15u64.wrapping_mul(policy as u64 + 1)),
            policy,
            max_in_flight: std::cell::Cell::new(0),
            completions: std::cell::Cell::new(0),
            wakers: RefCell::new(Vec::new()),
        }
    }
    /// completes one outstanding request; false if there is none
    fn complete_one(&self) -> bool {
        let mut p = self.pending.borrow_mut();
        if p.is_empty() {
            return false;
        }
        self.max_in_flight.set(self.max_in_flight.get().max(p.len()));
        let idx = match self.policy {
            0 => 0,
            1 => p.len() - 1,
            _ => {
                let mut x = self.rng.get();
                x ^= x << 13;
                x ^= x >> 7;
                x ^= x << 17;
                self.rng.set(x);
                (x % p.len() as u64) as usize
            }
        };
        let id = p.remove(idx);
        drop(p);
        self.done.borrow_mut().push(id);
        self.completions.set(self.completions.get() + 1);
        // wake the task that waits for this request (FuturesUnordered only re-polls woken tasks)
        let ws: Vec<std::task::Waker> = {
            let mut w = self.wakers.borrow_mut();
            let (mine, rest): (Vec<_>, Vec<_>) = w.drain(..).partition(|(i, _)| *i == id);
            *w = rest;
            mine.into_iter().map(|(_, w)| w).collect()
        };
        for w in ws {
            w.wake();
        }
        true
    }
}
struct Gate {
    id: Option<u64>,
    sched: std::rc::Rc<Sched>,
}
impl std::future::Future for Gate {
    type Output = ();
    fn poll(mut self: std::pin::Pin<&mut Self>, cx: &mut std::task::Context<'_>) -> std::task::Poll<()> {
        match self.id {
            None => {
                let id = self.sched.next_id.get();
                self.sched.next_id.set(id + 1);
                self.sched.pending.borrow_mut().push(id);
                self.sched.wakers.borrow_mut().push((id, cx.waker().clone()));
                self.id = Some(id);
                std::task::Poll::Pending
            }
            Some(id) => {
                if self.sched.done.borrow().contains(&id) {
                    std::task::Poll::Ready(())
                } else {
                    self.sched.wakers.borrow_mut().push((id, cx.waker().clone()));
                    std::task::Poll::Pending
                }
            }
        }
    }
}
struct AsyncUni {
    uni: Uni,
    sched: std::rc::Rc<Sched>,
}
impl AsyncUni {
    fn gate(&self) -> Gate {
        Gate { id: None, sched: self.sched.clone() }
    }
}
impl Interner for AsyncUni {
    fn display_solvable(&self, s: SolvableId) -> impl Display + '_ {
        self.uni.display_solvable(s)
    }
    fn display_name(&self, name: NameId) -> impl Display + '_ {
        self.uni.display_name(name)
    }
    fn display_version_set(&self, vs: VersionSetId) -> impl Display + '_ {
        self.uni.display_version_set(vs)
    }
    fn display_string(&self, s: StringId) -> impl Display + '_ {
        self.uni.display_string(s)
    }
    fn version_set_name(&self, vs: VersionSetId) -> NameId {
        self.uni.version_set_name(vs)
    }
    fn solvable_name(&self, s: SolvableId) -> NameId {
        self.uni.solvable_name(s)
    }
    fn version_sets_in_union(&self, u: VersionSetUnionId) -> impl Iterator<Item = VersionSetId> {
        self.uni.version_sets_in_union(u)
    }
}
impl DependencyProvider for AsyncUni {
    async fn filter_candidates(&self, candidates: &[SolvableId], vs: VersionSetId, inverse: bool) -> Vec<SolvableId> {
        self.uni.filter_candidates(candidates, vs, inverse).await
    }
    async fn get_candidates(&self, name: NameId) -> Option<Candidates> {
        self.uni.calls.borrow_mut().push((5, name.0)); // request issued
        self.gate().await;
        self.uni.get_candidates(name).await
    }
    async fn sort_candidates(&self, _solver: &SolverCache<Self>, solvables: &mut [SolvableId]) {
        if solvables.is_empty() {
            return;
        }
        let rank = &self.uni.pkgs[self.uni.solv_name[solvables[0].0 as usize] as usize].rank;
        solvables.sort_by_key(|s| rank.iter().position(|&r| r == s.0).unwrap_or(usize::MAX));
    }
    async fn get_dependencies(&self, solvable: SolvableId) -> Dependencies {
        self.uni.calls.borrow_mut().push((6, solvable.0)); // request issued
        self.gate().await;
        self.uni.get_dependencies(solvable).await
    }
}
struct SchedRuntime(std::rc::Rc<Sched>);
impl resolvo::runtime::AsyncRuntime for SchedRuntime {
    fn block_on<F: std::future::Future>(&self, f: F) -> F::Output {
        let mut f = std::pin::pin!(f);
        let mut cx = std::task::Context::from_waker(std::task::Waker::noop());
        loop {
            if let std::task::Poll::Ready(v) = f.as_mut().poll(&mut cx) {
                return v;
            }
            if !self.0.complete_one() {
                panic!("deadlock: the solver is pending but no provider request is outstanding");
            }
        }
    }
}

fn async_solves(v: &Value, prob: &Value, policies: &[u8]) -> Value {
    let mut outs = Vec::new();
    for &policy in policies {
        let sched = std::rc::Rc::new(Sched::new(policy));
        let provider = AsyncUni { uni: Uni::from_json(v), sched: sched.clone() };
        let mut solver = Solver::new(provider).with_runtime(SchedRuntime(sched.clone()));
        let mut o = solve_simple(&mut solver, prob);
        let calls = solver.provider().uni.calls.borrow();
        o["calls"] = json!(calls.iter().map(|c| json!([c.0, c.1])).collect::<Vec<_>>());
        o["policy"] = json!(policy);
        o["max_in_flight"] = json!(sched.max_in_flight.get());
        o["completions"] = json!(sched.completions.get());
        outs.push(o);
    }
    json!(outs)
}

/// C20 (observation through the public SolverCache API): cached candidate lists and the availability query
fn cache_probe(v: &Value) -> Value {
    use resolvo::runtime::AsyncRuntime;
    let r = std::panic::catch_unwind(std::panic::AssertUnwindSafe(|| {
        let uni = Uni::from_json(v);
        let nvs = uni.vs_name.len() as u32;
        let nun = uni.unions.len() as u32;
        let nsolv = uni.solv_name.len() as u32;
        let npk = uni.pkgs.len() as u32;
        let cache = SolverCache::new(uni);
        let rt = resolvo::runtime::NowOrNeverRuntime;
        let ids = |x: &[SolvableId]| x.iter().map(|s| s.0).collect::<Vec<_>>();
        let mut vs_out = Vec::new();
        // order of the queries varies with the version set id so that both "matching first" and "non-matching first" occur
        for vs in 0..nvs {
            let id = VersionSetId(vs);
            let (m, n) = if vs % 2 == 0 {
                let m = ids(rt.block_on(cache.get_or_cache_matching_candidates(id)).ok().unwrap());
                let n = ids(rt.block_on(cache.get_or_cache_non_matching_candidates(id)).ok().unwrap());
                (m, n)
            } else {
                let n = ids(rt.block_on(cache.get_or_cache_non_matching_candidates(id)).ok().unwrap());
                let m = ids(rt.block_on(cache.get_or_cache_matching_candidates(id)).ok().unwrap());
                (m, n)
            };
            let sorted = ids(rt.block_on(cache.get_or_cache_sorted_candidates(Requirement::Single(id))).ok().unwrap());
            vs_out.push(json!({"vs": vs, "matching": m, "non_matching": n, "sorted": sorted}));
        }
        let mut un_out = Vec::new();
        for u in 0..nun {
            let sorted = ids(rt.block_on(cache.get_or_cache_sorted_candidates(Requirement::Union(VersionSetUnionId(u)))).ok().unwrap());
            un_out.push(json!({"u": u, "sorted": sorted}));
        }
        for p in 0..npk {
            let _ = rt.block_on(cache.get_or_cache_candidates(NameId(p)));
        }
        let calls_before = cache.provider().calls.borrow().len();
        // everything again: identical contents, provider not consulted
        let mut stable = true;
        for (i, vs) in (0..nvs).enumerate() {
            let id = VersionSetId(vs);
            let m = ids(rt.block_on(cache.get_or_cache_matching_candidates(id)).ok().unwrap());
            let n = ids(rt.block_on(cache.get_or_cache_non_matching_candidates(id)).ok().unwrap());
            let so = ids(rt.block_on(cache.get_or_cache_sorted_candidates(Requirement::Single(id))).ok().unwrap());
            stable &= json!(m) == vs_out[i]["matching"] && json!(n) == vs_out[i]["non_matching"] && json!(so) == vs_out[i]["sorted"];
        }
        let calls_after = cache.provider().calls.borrow().len();
        let avail_before: Vec<bool> = (0..nsolv).map(|s| cache.are_dependencies_available_for(SolvableId(s))).collect();
        let fetched: Vec<u32> = (0..nsolv).filter(|s| s % 3 == 1).collect();
        for &s in &fetched {
            let _ = rt.block_on(cache.get_or_cache_dependencies(SolvableId(s)));
            let _ = rt.block_on(cache.get_or_cache_dependencies(SolvableId(s)));
        }
        let avail_after: Vec<bool> = (0..nsolv).map(|s| cache.are_dependencies_available_for(SolvableId(s))).collect();
        let dep_calls = cache.provider().calls.borrow().iter().filter(|c| c.0 == 1).count();
        json!({"version_sets": vs_out, "unions": un_out, "stable": stable, "provider_calls_on_repeat": calls_after - calls_before,
               "avail_before": avail_before, "fetched": fetched, "avail_after": avail_after, "dependency_calls": dep_calls})
    }));
    match r {
        Ok(v) => v,
        Err(p) => {
            let msg = p.downcast_ref::<String>().cloned().or_else(|| p.downcast_ref::<&str>().map(|s| s.to_string()));
            json!({"panic": msg.unwrap_or_default()})
        }
    }
}

/// verdict + solution only (used for the snapshot provider, C16)
fn solve_simple<D: DependencyProvider, RT: resolvo::runtime::AsyncRuntime>(solver: &mut Solver<D, RT>, prob: &Value) -> Value {
    let reqs: Vec<Requirement> = prob["req"].as_array().unwrap().iter().map(req_of).collect();
    let cons: Vec<VersionSetId> = u32s(&prob["con"]).into_iter().map(VersionSetId).collect();
    let problem = Problem::new().requirements(reqs).constraints(cons);
    let r = std::panic::catch_unwind(std::panic::AssertUnwindSafe(|| solver.solve(problem)));
    match r {
        Err(p) => {
            let msg = p.downcast_ref::<String>().cloned().or_else(|| p.downcast_ref::<&str>().map(|s| s.to_string()));
            json!({"result": "panic", "message": msg.unwrap_or_default()})
        }
        Ok(Ok(sol)) => json!({"result": "ok", "solution": sol.iter().map(|s| s.0).collect::<Vec<_>>()}),
        Ok(Err(UnsolvableOrCancelled::Cancelled(_))) => json!({"result": "cancelled"}),
        Ok(Err(UnsolvableOrCancelled::Unsolvable(_))) => json!({"result": "unsolvable"}),
    }
}

/// C16: capture the universe into a DependencySnapshot, solve through it, round-trip it through JSON, solve again.
fn snapshot_solves(v: &Value, prob: &Value) -> Value {
    let r = std::panic::catch_unwind(std::panic::AssertUnwindSafe(|| {
        let uni = Uni::from_json(v);
        let mut vsets: Vec<VersionSetId> = Vec::new();
        for r in prob["req"].as_array().unwrap() {
            if let Requirement::Single(vs) = req_of(r) {
                vsets.push(vs);
            }
        }
        vsets.extend(u32s(&prob["con"]).into_iter().map(VersionSetId));
        let snap = match resolvo::snapshot::DependencySnapshot::from_provider(uni, [], vsets, []) {
            Ok(s) => s,
            Err(_) => return json!({"error": "capture was cancelled"}),
        };
        let direct = {
            let mut solver = Solver::new(snap.provider());
            solve_simple(&mut solver, prob)
        };
        let text = serde_json::to_string(&snap).unwrap();
        let back: resolvo::snapshot::DependencySnapshot = serde_json::from_str(&text).unwrap();
        let roundtrip = {
            let mut solver = Solver::new(back.provider());
            solve_simple(&mut solver, prob)
        };
        // an added requirement must get a fresh id and leave every captured version set resolvable
        let mut prov = snap.provider();
        let captured: Vec<u32> = snap.version_sets.iter().map(|(id, _)| id.0).collect();
        // add a requirement on a captured package (the package of the first captured version set)
        let mut fresh = None;
        let mut names_ok = true;
        if let Some((_, first)) = snap.version_sets.iter().next() {
            fresh = Some(prov.add_package_requirement(first.name, "added").0);
            names_ok = captured.iter().all(|&id| {
                let a = snap.version_sets.get(VersionSetId(id)).map(|v| v.name);
                a == Some(prov.version_set_name(VersionSetId(id)))
            });
        }
        // candidate preference order as the snapshot (after the round trip) reports it
        let mut ranked = Vec::new();
        let mut ranked_unions = Vec::new();
        {
            use resolvo::runtime::AsyncRuntime;
            let rt = resolvo::runtime::NowOrNeverRuntime;
            let cache = SolverCache::new(back.provider());
            for &id in &captured {
                let so = rt.block_on(cache.get_or_cache_sorted_candidates(Requirement::Single(VersionSetId(id)))).ok().unwrap();
                ranked.push(json!([id, so.iter().map(|s| s.0).collect::<Vec<_>>()]));
            }
            for (uid, _) in back.version_set_unions.iter() {
                let so = rt.block_on(cache.get_or_cache_sorted_candidates(Requirement::Union(uid))).ok().unwrap();
                ranked_unions.push(json!([uid.0, so.iter().map(|s| s.0).collect::<Vec<_>>()]));
            }
        }
        json!({"direct": direct, "roundtrip": roundtrip, "json_len": text.len(), "fresh_id": fresh,
               "captured_version_sets": captured, "captured_resolve_after_add": names_ok,
               "ranked": ranked, "ranked_unions": ranked_unions})
    }));
    match r {
        Ok(v) => v,
        Err(p) => {
            let msg = p.downcast_ref::<String>().cloned().or_else(|| p.downcast_ref::<&str>().map(|s| s.to_string()));
            json!({"panic": msg.unwrap_or_default()})
        }
    }
}

fn main() {
    std::panic::set_hook(Box::new(|_| {}));
    let stdin = std::io::stdin();
    let stdout = std::io::stdout();
    let mut w = std::io::BufWriter::new(stdout.lock());
    for line in stdin.lock().lines() {
        let line = line.unwrap();
        if line.trim().is_empty() {
            continue;
        }
        let v: Value = serde_json::from_str(&line).unwrap();
        let uni = Uni::from_json(&v);
        let mut solver = Solver::new(uni);
        // "problems": one or more problems solved in sequence on the SAME solver (C13); default: just "problem"
        let problems: Vec<Value> = match v.get("problems") {
            Some(p) => p.as_array().unwrap().clone(),
            None => vec![v["problem"].clone()],
        };
        let want_dump = v["dump"].as_bool().unwrap_or(true);
        let mut outs = Vec::new();
        for p in &problems {
            outs.push(solve_once(&mut solver, p, want_dump));
        }
        let mut out = json!({"id": v["id"], "solves": outs});
        if v["cache_probe"].as_bool().unwrap_or(false) {
            out["cache"] = cache_probe(&v);
        }
        if v["async_policies"].is_array() {
            let pol: Vec<u8> = u32s(&v["async_policies"]).into_iter().map(|x| x as u8).collect();
            out["async"] = async_solves(&v, &problems[0], &pol);
        }
        if v["snapshot"].as_bool().unwrap_or(false) {
            out["snapshot"] = snapshot_solves(&v, &problems[0]);
        }
        writeln!(w, "{}", out).unwrap();
        w.flush().unwrap();
    }
}
