//! C17: the Rust halves of the containers shared with C++ (`cpp/src/vector.rs`, `string.rs`, `slice.rs` of the
//! scratch copy), compiled verbatim by #[path]-inclusion.  Harness modules are attached to those files.
#![allow(dead_code, clippy::all)]
#[path = "../../repo/cpp/src/slice.rs"]
pub mod slice;
#[path = "../../repo/cpp/src/string.rs"]
pub mod string;
#[path = "../../repo/cpp/src/vector.rs"]
pub mod vector;
