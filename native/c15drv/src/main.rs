//! C15 driver: executes the REAL `src/solver/binary_encoding.rs` of the scratch copy (#[path]-included,
//! nothing modelled) and prints every clause / helper variable it emits, one JSON line per `add` call.
#![allow(dead_code)]
#[path = "../../repo/src/solver/binary_encoding.rs"]
mod binary_encoding;

use binary_encoding::AtMostOnceTracker;

const HELPER_BASE: u64 = 1_000_000;

fn main() {
    let args: Vec<String> = std::env::args().collect();
    let n: u64 = args[1].parse().unwrap();
    let seed: u64 = args.get(2).map(|s| s.parse().unwrap()).unwrap_or(0);
    // candidate ids in discovery order: identity for seed 0, otherwise a seeded permutation of 0..n
    let mut order: Vec<u64> = (0..n).collect();
    if seed != 0 {
        let mut x = seed.wrapping_mul(0x9E3779B97F4A7C15) | 1;
        for i in (1..order.len()).rev() {
            x ^= x << 13;
            x ^= x >> 7;
            x ^= x << 17;
            order.swap(i, (x % (i as u64 + 1)) as usize);
        }
    }
    let mut tracker: AtMostOnceTracker<u64> = AtMostOnceTracker::default();
    let mut next_helper = HELPER_BASE;
    for (k, &var) in order.iter().enumerate() {
        for dup in [false, true] {
            // after every fresh variable, re-add an already tracked one (must emit nothing)
            let v = if dup { order[(k * 7 + 3) % (k + 1)] } else { var };
            let mut clauses: Vec<(u64, u64, bool)> = Vec::new();
            let mut helpers: Vec<u64> = Vec::new();
            tracker.add(
                v,
                |a, b, positive| clauses.push((a, b, positive)),
                || {
                    let h = next_helper;
                    next_helper += 1;
                    helpers.push(h);
                    h
                },
            );
            let cl: Vec<String> = clauses.iter().map(|(a, b, p)| format!("[{},{},{}]", a, b, p)).collect();
            let hl: Vec<String> = helpers.iter().map(|h| h.to_string()).collect();
            println!(
                "{{\"n\":{},\"var\":{},\"dup\":{},\"clauses\":[{}],\"new_helpers\":[{}]}}",
                k + 1, v, dup, cl.join(","), hl.join(",")
            );
        }
    }
}
