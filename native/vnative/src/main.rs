//! Native replay programs: public-API witnesses run against the real build of the scratch copy
//! (pinned 1.86 toolchain, dev and release).  Each scenario prints one machine-readable RESULT line.
use std::any::Any;
use std::fmt::Display;

use resolvo::{
    Candidates, Dependencies, DependencyProvider, HintDependenciesAvailable, Interner, KnownDependencies, NameId,
    Problem, Requirement, SolvableId, Solver, SolverCache, StringId, UnsolvableOrCancelled, VersionSetId,
    VersionSetUnionId,
};

/// A tiny self-contained universe: packages with integer versions; a version set is (package, allowed versions).
#[derive(Default, Clone)]
pub struct Uni {
    pub names: Vec<String>,
    pub solvables: Vec<(NameId, u32)>,
    pub version_sets: Vec<(NameId, Vec<u32>)>,
    pub unions: Vec<Vec<VersionSetId>>,
    pub deps: Vec<Option<KnownDependencies>>, // per solvable; None = no dependencies
    pub strings: Vec<String>,
    pub locked: Vec<(NameId, SolvableId)>,
    pub hint_all: Vec<NameId>,
}

impl Uni {
    pub fn name(&mut self, n: &str) -> NameId {
        if let Some(i) = self.names.iter().position(|x| x == n) {
            return NameId(i as u32);
        }
        self.names.push(n.to_string());
        NameId(self.names.len() as u32 - 1)
    }
    pub fn solvable(&mut self, n: &str, v: u32) -> SolvableId {
        let name = self.name(n);
        self.solvables.push((name, v));
        self.deps.push(None);
        SolvableId(self.solvables.len() as u32 - 1)
    }
    pub fn vs(&mut self, n: &str, allowed: &[u32]) -> VersionSetId {
        let name = self.name(n);
        self.version_sets.push((name, allowed.to_vec()));
        VersionSetId(self.version_sets.len() as u32 - 1)
    }
    pub fn dep(&mut self, s: SolvableId) -> &mut KnownDependencies {
        self.deps[s.0 as usize].get_or_insert_with(Default::default)
    }
}

impl Interner for Uni {
    fn display_solvable(&self, s: SolvableId) -> impl Display + '_ {
        let (n, v) = &self.solvables[s.0 as usize];
        format!("{}={}", self.names[n.0 as usize], v)
    }
    fn display_name(&self, name: NameId) -> impl Display + '_ {
        self.names[name.0 as usize].clone()
    }
    fn display_version_set(&self, vs: VersionSetId) -> impl Display + '_ {
        format!("{:?}", self.version_sets[vs.0 as usize].1)
    }
    fn display_string(&self, s: StringId) -> impl Display + '_ {
        self.strings[s.0 as usize].clone()
    }
    fn version_set_name(&self, vs: VersionSetId) -> NameId {
        self.version_sets[vs.0 as usize].0
    }
    fn solvable_name(&self, s: SolvableId) -> NameId {
        self.solvables[s.0 as usize].0
    }
    fn version_sets_in_union(&self, u: VersionSetUnionId) -> impl Iterator<Item = VersionSetId> {
        self.unions[u.0 as usize].iter().copied()
    }
}

impl DependencyProvider for Uni {
    async fn filter_candidates(&self, candidates: &[SolvableId], vs: VersionSetId, inverse: bool) -> Vec<SolvableId> {
        let allowed = &self.version_sets[vs.0 as usize].1;
        candidates
            .iter()
            .copied()
            .filter(|c| allowed.contains(&self.solvables[c.0 as usize].1) != inverse)
            .collect()
    }
    async fn get_candidates(&self, name: NameId) -> Option<Candidates> {
        let c: Vec<SolvableId> = (0..self.solvables.len() as u32)
            .map(SolvableId)
            .filter(|s| self.solvables[s.0 as usize].0 == name)
            .collect();
        if c.is_empty() {
            return None;
        }
        Some(Candidates {
            candidates: c,
            locked: self.locked.iter().find(|(n, _)| *n == name).map(|(_, s)| *s),
            hint_dependencies_available: if self.hint_all.contains(&name) {
                HintDependenciesAvailable::All
            } else {
                HintDependenciesAvailable::None
            },
            ..Default::default()
        })
    }
    async fn sort_candidates(&self, _solver: &SolverCache<Self>, solvables: &mut [SolvableId]) {
        solvables.sort_by(|a, b| self.solvables[b.0 as usize].1.cmp(&self.solvables[a.0 as usize].1));
    }
    async fn get_dependencies(&self, s: SolvableId) -> Dependencies {
        Dependencies::Known(self.deps[s.0 as usize].clone().unwrap_or_default())
    }
    fn should_cancel_with_value(&self) -> Option<Box<dyn Any>> {
        None
    }
}

fn solve_and_print(uni: Uni, reqs: Vec<Requirement>, render: bool) {
    solve_and_print_c(uni, reqs, vec![], render)
}

fn solve_and_print_c(uni: Uni, reqs: Vec<Requirement>, constraints: Vec<VersionSetId>, render: bool) {
    let mut solver = Solver::new(uni);
    match solver.solve(Problem::new().requirements(reqs).constraints(constraints)) {
        Ok(mut sol) => {
            sol.sort();
            let names: Vec<String> = sol.iter().map(|&s| solver.provider().display_solvable(s).to_string()).collect();
            println!("RESULT solution {}", names.join(" "));
        }
        Err(UnsolvableOrCancelled::Unsolvable(c)) => {
            if render {
                let msg = c.display_user_friendly(&solver).to_string();
                let _g = c.graph(&solver);
                println!("RESULT unsolvable message_lines={}", msg.lines().count());
                print!("{}", msg);
            } else {
                println!("RESULT unsolvable");
            }
        }
        Err(UnsolvableOrCancelled::Cancelled(_)) => println!("RESULT cancelled"),
    }
}

/// C15: one package `a` with n candidates (versions 0..n), revealed through one requirement per selected
/// version; requirements select exactly the listed versions.
fn scenario_c15(args: &[String]) {
    let n: u32 = args[0].parse().unwrap();
    let picks: Vec<u32> = args[1..].iter().map(|s| s.parse().unwrap()).collect();
    let mut u = Uni::default();
    for v in 0..n {
        u.solvable("a", v);
    }
    let reqs: Vec<Requirement> = picks.iter().map(|&v| Requirement::Single(u.vs("a", &[v]))).collect();
    solve_and_print(u, reqs, false);
}

/// C15, second witness shape: a first requirement matches ALL n versions, so the encoder registers every candidate
/// with the at-most-one tracker in sorted order (highest version first: discovery position k = version n-1-k); the
/// further requirements select the candidates at the given discovery POSITIONS.
fn scenario_c15r(args: &[String]) {
    let n: u32 = args[0].parse().unwrap();
    let picks: Vec<u32> = args[1..].iter().map(|s| s.parse().unwrap()).collect();
    let mut u = Uni::default();
    for v in 0..n {
        u.solvable("a", v);
    }
    let all: Vec<u32> = (0..n).collect();
    let mut reqs: Vec<Requirement> = vec![Requirement::Single(u.vs("a", &all))];
    for &p in &picks {
        reqs.push(Requirement::Single(u.vs("a", &[n - 1 - p])));
    }
    solve_and_print(u, reqs, false);
}

/// C04/F3: a solvable whose `constrains` entry excludes itself (a=1 constrains a in {2}).
fn scenario_selfcons(_args: &[String]) {
    let mut u = Uni::default();
    let a1 = u.solvable("a", 1);
    let _a2 = u.solvable("a", 2);
    let only2 = u.vs("a", &[2]);
    u.dep(a1).constrains.push(only2);
    let req = u.vs("a", &[1]);
    solve_and_print(u, vec![Requirement::Single(req)], true);
}

/// C04/F5: a hinted candidate that is already decided false when its requirement is encoded:
/// package a = {a1, a2} locked to a1 with HintDependenciesAvailable::All, a2 requires x; the root has a
/// constraint on a (so the lock forces a2 = false first) and requires p; p1 requires a.
fn scenario_hintedfalse(_args: &[String]) {
    let mut u = Uni::default();
    let x1 = u.solvable("x", 1);
    let _ = x1;
    let any_x = u.vs("x", &[1]);
    let a1 = u.solvable("a", 1);
    let a2 = u.solvable("a", 2);
    u.dep(a2).requirements.push(Requirement::Single(any_x));
    let any_a = u.vs("a", &[1, 2]);
    let p1 = u.solvable("p", 1);
    u.dep(p1).requirements.push(Requirement::Single(any_a));
    let any_p = u.vs("p", &[1]);
    let a = u.name("a");
    u.locked.push((a, a1));
    u.hint_all.push(a);
    solve_and_print_c(u, vec![Requirement::Single(any_p)], vec![any_a], true);
}

/// C04/F3 (second shape): the self-constraining solvable is the preferred candidate; the other one must be chosen.
fn scenario_selfcons_preferred(_args: &[String]) {
    let mut u = Uni::default();
    let a9 = u.solvable("a", 9);
    let _a2 = u.solvable("a", 2);
    let only2 = u.vs("a", &[2]);
    u.dep(a9).constrains.push(only2);
    let any = u.vs("a", &[9, 2]);
    solve_and_print(u, vec![Requirement::Single(any)], true);
}

fn main() {
    let args: Vec<String> = std::env::args().skip(1).collect();
    match args[0].as_str() {
        "c15" => scenario_c15(&args[1..]),
        "c15r" => scenario_c15r(&args[1..]),
        "selfcons" => scenario_selfcons(&args[1..]),
        "selfcons_preferred" => scenario_selfcons_preferred(&args[1..]),
        "hintedfalse" => scenario_hintedfalse(&args[1..]),
        other => {
            eprintln!("unknown scenario {other}");
            std::process::exit(64);
        }
    }
}
