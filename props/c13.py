"""C13 - a solver can be reused.  Decided by the certificate engine only (DESIGN section 8.2)."""
from cert_prop import replay_cert, run_cert_only

PROP = "C13"
RULE = ("one evaluation = one z3 query; a universe is non-trivial for C13 when two or more problems were solved in sequence on ONE solver instance: every later call's verdict must equal z3's verdict for that problem alone, its solution must satisfy Spec(U), its clause database and learnt clauses are certified like a first call's, and the provider call log across the whole sequence must not repeat a get_candidates(name) or get_dependencies(solvable)")
FUNCTIONS = ['src/solver/mod.rs: solve (state reset), run_sat', 'src/solver/cache.rs: SolverCache persistent maps (executed natively across calls)']
EXTRA = ['sequences after Cancelled outcomes are not generated (cancellation is outside this engine)']


def run(tier, seed, only):
    return run_cert_only(PROP, tier, seed, RULE, FUNCTIONS, EXTRA)


def replay(path):
    return replay_cert(PROP, path)
