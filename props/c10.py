"""C10 - any completion order of asynchronous metadata requests gives a correct result.  Decided by the certificate engine only (DESIGN section 8.2)."""
from cert_prop import replay_cert, run_cert_only

PROP = "C10"
RULE = ("one evaluation = one z3 query; each universe is solved through an asynchronous provider (get_candidates / get_dependencies suspend until a scheduler completes them) under four completion orders: oldest outstanding request first, newest first, and two pseudo-random orders; the runtime completes exactly one outstanding request whenever the solver's future is pending and reports a deadlock when it is pending with nothing outstanding. A universe is non-trivial for C10 when at least two requests were outstanding at the same time in one of its runs. For every run: the verdict must equal z3's verdict on Spec(U) and the synchronous run's, the solution must satisfy Spec(U) (z3), no get_candidates(name) / get_dependencies(solvable) request may be issued twice, and the run must terminate")
FUNCTIONS = ['src/solver/encoding.rs: Encoder::encode, queue_*, on_task_result (executed natively under the scheduled runtime)', 'src/solver/cache.rs: get_or_cache_candidates incl. the in-flight Event path, get_or_cache_dependencies (executed natively)', 'src/runtime.rs: AsyncRuntime (the driver supplies its own implementation through Solver::with_runtime)']
EXTRA = ['completion orders are ENUMERATED (4 per universe), not symbolic: the cfg(verif_sched) hook of the futures shim that would make the order a symbolic input has no harness that finishes (DESIGN 8.1)', "the real futures / event-listener crates are used; wakers are honoured (a request's task is woken when the scheduler completes it)"]


def run(tier, seed, only):
    return run_cert_only(PROP, tier, seed, RULE, FUNCTIONS, EXTRA)


def replay(path):
    return replay_cert(PROP, path)
