"""C20 — partial: the favored-rotation kernel, sliced verbatim from the current source of cache.rs."""
import re

from common import Harness, Inconclusive, REPO, source_lines
from kani_prop import Attach, run_incrate, replay_incrate
import cert_prop
import os

PROP = "C20"
HOST = "src/solver/cache.rs"
SRC = "c20_favored.rs"
START = "if let Some(favored_id) = candidates.favored {"


def slice_block():
    """Extracts, by brace matching, the statement block that moves the favored candidate to the front."""
    src = open(os.path.join(REPO, HOST)).read()
    n = src.count(START)
    if n != 1:
        raise Inconclusive("favored-rotation block: start marker found %d times in %s" % (n, HOST))
    i = src.index(START)
    depth = 0
    j = i
    while j < len(src):
        c = src[j]
        if c == "{":
            depth += 1
        elif c == "}":
            depth -= 1
            if depth == 0:
                break
        j += 1
    if depth != 0:
        raise Inconclusive("favored-rotation block: unbalanced braces")
    block = src[i:j + 1]
    first_line = src[:i].count("\n") + 1
    last_line = src[:j].count("\n") + 1
    if "sorted_candidates" not in block:
        raise Inconclusive("favored-rotation block does not mention sorted_candidates any more")
    return block, first_line, last_line


PATHS = ["-Z", "unstable-options", "--cbmc-args", "--paths", "lifo"]

PRELUDE = '''// C20 — generated: the favored-rotation block of get_or_cache_sorted_candidates_for_version_set,
// spliced verbatim (lines %d-%d of src/solver/cache.rs) into a function over the two values it uses.
use crate::SolvableId;

struct Cands {
    favored: Option<SolvableId>,
}

#[allow(clippy::all)]
fn sliced(candidates: &Cands, sorted_candidates: &mut Vec<SolvableId>) {
    // ---- verbatim slice begins ----
    %s
    // ---- verbatim slice ends ----
}

/// L pairwise distinct symbolic ids; the favored candidate is symbolic too: absent (None), an id that is
/// not in the list, or the element at a symbolic position.  Decided with CBMC's path-based symbolic
/// execution (--paths lifo): on each path `position()` has a concrete result, so rotate_right runs with a
/// concrete range while the ids stay symbolic (with the default merged-state symex a symbolic rotation
/// range runs out of memory even for two elements, DESIGN P16).
fn case<const L: usize>() {
    let mut ids = [SolvableId(0); L];
    let mut v: Vec<SolvableId> = Vec::with_capacity(L);
    let mut i = 0;
    while i < L {
        let x: u32 = kani::any();
        ids[i] = SolvableId(x);
        let mut j = 0;
        while j < i {
            kani::assume(ids[j] != ids[i]);
            j += 1;
        }
        v.push(ids[i]);
        i += 1;
    }
    let mode: u8 = kani::any();
    kani::assume(mode < 3);
    let pos: usize = kani::any();
    kani::assume(pos < L || (L == 0 && pos == 0));
    kani::assume(mode != 2 || L > 0);
    let favored = match mode {
        0 => None,
        1 => {
            let f = SolvableId(kani::any());
            let mut j = 0;
            while j < L {
                kani::assume(ids[j] != f);
                j += 1;
            }
            Some(f)
        }
        _ => Some(ids[pos]),
    };
    let c = Cands { favored };
    sliced(&c, &mut v);
    assert!(v.len() == L, "length unchanged");
    if mode == 2 {
        assert!(v[0] == ids[pos], "the favored candidate is moved to the front");
        // the others keep their relative order
        let mut k = 1;
        while k < L {
            let orig = if k <= pos { k - 1 } else { k };
            assert!(v[k] == ids[orig], "the other candidates keep their relative order");
            k += 1;
        }
    } else {
        let mut k = 0;
        while k < L {
            assert!(v[k] == ids[k], "list unchanged when there is no favored candidate in it");
            k += 1;
        }
    }
    kani::cover!(mode == 0, "no favored candidate");
    kani::cover!(mode == 1, "favored candidate not in the list");
    kani::cover!(L == 0 || (mode == 2 && pos == L - 1), "favored candidate last");
    kani::cover!(L == 0 || (mode == 2 && pos == 0), "favored candidate already first");
    std::mem::forget(v);
}

#[kani::proof]
#[kani::unwind(8)]
fn c20_twin_must_fail() {
    let base: u32 = kani::any();
    let mut v = vec![SolvableId(base), SolvableId(base.wrapping_add(1))];
    let f = v[1];
    let c = Cands { favored: Some(f) };
    sliced(&c, &mut v);
    assert!(v[0] != f, "vacuity witness");
    std::mem::forget(v);
}
'''


def build(tier):
    block, l0, l1 = slice_block()
    text = PRELUDE % (l0, l1, block.replace("\n", "\n    "))
    hs = []
    tw = Harness("c20_twin_must_fail", bounds="vacuity twin", expect="fail", timeout=600, group="c20", extra_args=PATHS)
    tw.group_file = SRC
    hs.append(tw)
    maxl = 4 if tier == "quick" else 6
    for L in range(0, maxl + 1):
        name = "c20_len%d" % L
        text += "\n#[kani::proof]\n#[kani::unwind(12)]\nfn %s() {\n    case::<%d>();\n}\n" % (name, L)
        h = Harness(name, bounds="sorted list of %d pairwise distinct symbolic SolvableIds (any u32); favored: None, an id not in the list, or the element at any position (symbolic)" % L,
                    symbolic=["candidate ids", "favored: none / absent / position"], enumerated=["list length %d" % L],
                    min_covers=4 if L > 0 else 4, timeout=3600, mem_gb=16, group="c20_rot",
                    extra_args=PATHS, instance={"len": L})
        h.group_file = SRC
        hs.append(h)
    return text, hs, (l0, l1)


ASSUMPTIONS = [
    "the block `if let Some(favored_id) = candidates.favored { ... }` is extracted verbatim from /repo's current src/solver/cache.rs by brace matching and spliced into a function over (candidates.favored, sorted_candidates); if it cannot be located the check is inconclusive",
    "Kani 0.68 / CBMC 6.11 on that function compiled inside the resolvo crate, with CBMC's path-based symbolic execution (`--cbmc-args --paths lifo`): every path is decided by the SAT solver separately and all paths are explored; list length is enumerated, ids and the favored choice/position are symbolic",
    "NOT decided: partitioning by filter_candidates, sort order, idempotence/caching and the availability query (async fns over FrozenMap/FrozenCopyMap/Event/BitVec, DESIGN R1)",
]
RULE = "one evaluation = one CBMC property decided SUCCESS in a SUCCESSFUL harness; instances = list lengths; non-trivial = all four cover witnesses (no favored / absent / favored last / favored first) SATISFIED"


def run(tier, seed, only):
    text, hs, (l0, l1) = build(tier)
    note = ["additional native OBSERVATION (not a solver query, not the deciding step): for the universes of the certificate engine's `cache` family the public SolverCache methods (matching / non-matching / sorted candidates of every version set and union, repeated queries, are_dependencies_available_for before and after fetching) are called on the real dev and release builds and compared with the universe: partition as filter_candidates defines it, sort order with the favored candidate first, identical answers without further provider calls, availability = hinted or fetched"]
    return run_incrate(PROP, tier, seed, only, [Attach(SRC, HOST, "verif_c20", text=text)], hs,
                       ["%s:%d-%d (favored rotation, sliced)" % (HOST, l0, l1),
                        "src/solver/cache.rs: public get_or_cache_* methods and are_dependencies_available_for (executed natively, observation only)"],
                       ASSUMPTIONS + note, [], RULE, jobs=10, extra=None if only else cert_prop.cert_extra(PROP, tier, seed))


def replay(path):
    if cert_prop.is_cert_replay(path):
        return cert_prop.replay_cert(PROP, path)
    text, _, _ = build("thorough")
    return replay_incrate(PROP, path, [Attach(SRC, HOST, "verif_c20", text=text)])
