"""C20 — partial: the favored-rotation kernel, sliced verbatim from the current source of cache.rs."""
import re

from common import Harness, Inconclusive, REPO, source_lines
from kani_prop import Attach, run_incrate, replay_incrate
import os

PROP = "C20"
HOST = "src/solver/cache.rs"
SRC = "c20_favored.rs"
START = "if let Some(favored_id) = candidates.favored {"


def slice_block():
    """Extracts, by brace matching, the statement block that moves the favored candidate to the front."""
    src = open(os.path.join(REPO, HOST)).read()
    n = src.count(START)
    if n != 1:
        raise Inconclusive("favored-rotation block: start marker found %d times in %s" % (n, HOST))
    i = src.index(START)
    depth = 0
    j = i
    while j < len(src):
        c = src[j]
        if c == "{":
            depth += 1
        elif c == "}":
            depth -= 1
            if depth == 0:
                break
        j += 1
    if depth != 0:
        raise Inconclusive("favored-rotation block: unbalanced braces")
    block = src[i:j + 1]
    first_line = src[:i].count("\n") + 1
    last_line = src[:j].count("\n") + 1
    if "sorted_candidates" not in block:
        raise Inconclusive("favored-rotation block does not mention sorted_candidates any more")
    return block, first_line, last_line


PRELUDE = '''// C20 — generated: the favored-rotation block of get_or_cache_sorted_candidates_for_version_set,
// spliced verbatim (lines %d-%d of src/solver/cache.rs) into a function over the two values it uses.
use crate::SolvableId;

struct Cands {
    favored: Option<SolvableId>,
}

#[allow(clippy::all)]
fn sliced(candidates: &Cands, sorted_candidates: &mut Vec<SolvableId>) {
    // ---- verbatim slice begins ----
    %s
    // ---- verbatim slice ends ----
}

/// L distinct symbolic ids; `mode`: 0 = no favored candidate, 1 = favored not in the list, 2 = favored at POS
fn case<const L: usize>(mode: u8, pos: usize) {
    let mut ids = [SolvableId(0); L];
    let mut v: Vec<SolvableId> = Vec::with_capacity(L);
    let mut i = 0;
    // ids = base, base+1, ... for a symbolic base (wrapping): pairwise distinct by construction, and CBMC's
    // simplifier can decide `base+i == base+j` syntactically, which keeps the rotation position concrete
    // (a symbolic position under rotate_right runs out of memory even for two elements)
    let base: u32 = kani::any();
    while i < L {
        ids[i] = SolvableId(base.wrapping_add(i as u32));
        v.push(ids[i]);
        i += 1;
    }
    let favored = match mode {
        0 => None,
        1 => Some(SolvableId(base.wrapping_add(L as u32 + 7))),
        _ => Some(ids[pos]),
    };
    let c = Cands { favored };
    sliced(&c, &mut v);
    assert!(v.len() == L, "length unchanged");
    if mode == 2 {
        assert!(v[0] == ids[pos], "the favored candidate is moved to the front");
        // the others keep their relative order
        let mut k = 1;
        while k < L {
            let orig = if k <= pos { k - 1 } else { k };
            assert!(v[k] == ids[orig], "the other candidates keep their relative order");
            k += 1;
        }
    } else {
        let mut k = 0;
        while k < L {
            assert!(v[k] == ids[k], "list unchanged when there is no favored candidate in it");
            k += 1;
        }
    }
    kani::cover!(L < 2 || ids[1] == SolvableId(0), "ids wrap around u32::MAX");
    std::mem::forget(v);
}

#[kani::proof]
#[kani::unwind(8)]
fn c20_twin_must_fail() {
    let base: u32 = kani::any();
    let mut v = vec![SolvableId(base), SolvableId(base.wrapping_add(1))];
    let f = v[1];
    let c = Cands { favored: Some(f) };
    sliced(&c, &mut v);
    assert!(v[0] != f, "vacuity witness");
    std::mem::forget(v);
}
'''


def build(tier):
    block, l0, l1 = slice_block()
    text = PRELUDE % (l0, l1, block.replace("\n", "\n    "))
    hs = []
    tw = Harness("c20_twin_must_fail", bounds="vacuity twin", expect="fail", timeout=600, group="c20")
    tw.group_file = SRC
    hs.append(tw)
    maxl = 4 if tier == "quick" else 6
    for L in range(0, maxl + 1):
        modes = [(0, 0, "none"), (1, 0, "absent")] + [(2, p, "at%d" % p) for p in range(L)]
        for mode, pos, tag in modes:
            name = "c20_len%d_%s" % (L, tag)
            text += "\n#[kani::proof]\n#[kani::unwind(10)]\nfn %s() {\n    case::<%d>(%d, %d);\n}\n" % (name, L, mode, pos)
            what = {0: "no favored candidate", 1: "favored candidate not among the sorted candidates", 2: "favored candidate at position %d" % pos}[mode]
            h = Harness(name, bounds="sorted list of %d SolvableIds base, base+1, ... (wrapping) for every u32 base; %s" % (L, what),
                        symbolic=["base of the id progression (all 2^32 values)"],
                        enumerated=["list length %d" % L, what], min_covers=1, timeout=900, mem_gb=12, group="c20_rot",
                        instance={"len": L, "favored": tag})
            h.group_file = SRC
            hs.append(h)
    return text, hs, (l0, l1)


ASSUMPTIONS = [
    "the block `if let Some(favored_id) = candidates.favored { ... }` is extracted verbatim from /repo's current src/solver/cache.rs by brace matching and spliced into a function over (candidates.favored, sorted_candidates); if it cannot be located the check is inconclusive",
    "Kani 0.68 / CBMC 6.11 on that function compiled inside the resolvo crate; list length and the favored position are enumerated, and the ids form the progression base, base+1, ... with a symbolic u32 base: arbitrary pairwise-distinct symbolic ids make the position computed by `position()` symbolic, and rotate_right with a symbolic position runs out of memory even for 2 elements (DESIGN P16)",
    "NOT decided: partitioning by filter_candidates, sort order, idempotence/caching and the availability query (async fns over FrozenMap/FrozenCopyMap/Event/BitVec, DESIGN R1)",
]
RULE = "one evaluation = one CBMC property decided SUCCESS in a SUCCESSFUL harness; instances = list length x {no favored, favored absent, favored at each position}; non-trivial = cover witness SATISFIED"


def run(tier, seed, only):
    text, hs, (l0, l1) = build(tier)
    return run_incrate(PROP, tier, seed, only, [Attach(SRC, HOST, "verif_c20", text=text)], hs,
                       ["%s:%d-%d (favored rotation, sliced)" % (HOST, l0, l1)], ASSUMPTIONS, [], RULE, jobs=10)


def replay(path):
    text, _, _ = build("thorough")
    return replay_incrate(PROP, path, [Attach(SRC, HOST, "verif_c20", text=text)])
