"""Common shape of a property decided by in-crate / external Kani harnesses."""
import json
import os
import re
import time

from common import Harness, Inconclusive, KaniRunner, Scratch, log, playback, VERIF
from driver import Outcome, finish, handle_results


ARENA_SCALE = ("src/internal/arena.rs", r"(?m)^const CHUNK_SIZE: usize = 128;", "const CHUNK_SIZE: usize = 4;",
               "src/internal/arena.rs: CHUNK_SIZE 128 -> 4 (scratch copy only)")
MAPPING_SCALE = ("src/internal/mapping.rs", r"(?m)^const VALUES_PER_CHUNK: usize = 128;", "const VALUES_PER_CHUNK: usize = 4;",
                 "src/internal/mapping.rs: VALUES_PER_CHUNK 128 -> 4 (scratch copy only)")


class Attach:
    """harness source file (under /verif/kani) + the repo file whose module it becomes a child of"""
    def __init__(self, src, host, modname, text=None):
        self.src, self.host, self.modname, self.text = src, host, modname, text


class Group:
    """a second set of harnesses that needs its own scratch copy (e.g. built against the dependency shims)"""
    def __init__(self, attaches, harnesses, scalings=(), shims=None, jobs=8):
        self.attaches, self.harnesses, self.scalings, self.shims, self.jobs = attaches, harnesses, scalings, shims, jobs


def _prepare(sc, attaches, harnesses, scalings, shims):
    if shims:
        sc.use_shims(shims)
    for s in scalings:
        sc.scale(*s)
    file_of_mod, modpath = {}, {}
    for a in attaches:
        if a.text is not None:
            p = sc.add_harness_file(a.text, a.src, is_text=True)
        else:
            p = sc.add_harness_file(os.path.join(VERIF, "kani", a.src))
        sc.attach(a.host, p, a.modname)
        file_of_mod[a.src] = p
        host = re.sub(r"^src/", "", a.host)
        host = re.sub(r"(/mod)?\.rs$", "", host).replace("/", "::")
        modpath[a.src] = (host + "::" if host != "lib" else "") + a.modname
    for h in harnesses:
        h.qual = modpath[h.group_file] + "::" + h.name
    return file_of_mod


def run_incrate(prop, tier, seed, only, attaches, harnesses, functions_encoded, assumptions, stubs, rule,
                scalings=(), jobs=8, extra=None, package_args=None, shims=None, groups=()):
    t0 = time.time()
    sc = Scratch(prop.lower())
    if shims:
        sc.use_shims(shims)
    for s in scalings:
        sc.scale(*s)
    file_of_mod = {}
    for a in attaches:
        if a.text is not None:
            p = sc.add_harness_file(a.text, a.src, is_text=True)
        else:
            p = sc.add_harness_file(os.path.join(VERIF, "kani", a.src))
        sc.attach(a.host, p, a.modname)
        file_of_mod[a.src] = p
    modpath = {}
    for a in attaches:
        host = re.sub(r"^src/", "", a.host)
        host = re.sub(r"(/mod)?\.rs$", "", host).replace("/", "::")
        modpath[a.src] = (host + "::" if host != "lib" else "") + a.modname
    for h in harnesses:
        h.qual = modpath[h.group_file] + "::" + h.name
    hs = [h for h in harnesses if (not only or re.search(only, h.name))]
    if not hs and not any(re.search(only or "", h.name) for g in groups for h in g.harnesses):
        raise Inconclusive("no harness selected")
    # further harness groups run concurrently with the main one, each in its own scratch copy
    import threading
    started = []
    for gi, g in enumerate(groups):
        ghs = [h for h in g.harnesses if (not only or re.search(only, h.name))]
        if not ghs:
            continue
        gsc = Scratch("%s_g%d" % (prop.lower(), gi + 2))
        gfile = _prepare(gsc, g.attaches, g.harnesses, g.scalings, g.shims)
        grunner = KaniRunner(gsc, gsc.repo, jobs=g.jobs, package_args=package_args)
        box = {}

        def work(grunner=grunner, ghs=ghs, box=box):
            try:
                box["res"] = grunner.run_all(ghs)
            except Exception as e:      # reported below as inconclusive
                box["err"] = e
        t = threading.Thread(target=work)
        t.start()
        started.append((t, gsc, gfile, grunner, box))
    runner = KaniRunner(sc, sc.repo, jobs=jobs, package_args=package_args)
    results = runner.run_all(hs)
    out = Outcome()
    handle_results(prop, results, runner, sc, sc.repo, lambda h: file_of_mod[h.group_file], out, package_args=package_args)
    all_scalings = list(sc.scalings)
    for t, gsc, gfile, grunner, box in started:
        t.join()
        if "err" in box:
            out.inconclusive.append("harness group failed: %s" % box["err"])
        else:
            handle_results(prop, box["res"], grunner, gsc, gsc.repo, lambda h, gfile=gfile: gfile[h.group_file], out, package_args=package_args)
        all_scalings += [x for x in gsc.scalings if x not in all_scalings]
        gsc.cleanup()
    if extra:
        extra(sc, out)
    rc = finish(prop, tier, seed, out, t0, functions_encoded, assumptions, stubs, all_scalings, rule)
    sc.cleanup()
    return rc


def replay_incrate(prop, path, attaches, scalings=(), package_args=None, shims=None):
    """Re-runs a recorded counterexample (concrete playback test) natively against /repo's current tree."""
    info = json.load(open(path))
    sc = Scratch(prop.lower() + "_replay")
    if shims:
        sc.use_shims(shims)
    for s in scalings:
        sc.scale(*s)
    target = None
    for a in attaches:
        if a.text is not None:
            p = sc.add_harness_file(a.text, a.src, is_text=True)
        else:
            p = sc.add_harness_file(os.path.join(VERIF, "kani", a.src))
        sc.attach(a.host, p, a.modname)
        if re.search(r"fn %s\(" % re.escape(info["harness"]), open(p).read()):
            target = p
    if not target or not info.get("playback_test"):
        log("replay: harness %s not found or no concrete test recorded" % info["harness"])
        return 2
    rc = 0
    for rel in (False, True):
        r = playback(sc, sc.repo, target, info["playback_test"], release=rel, package_args=package_args)
        log("replay %s profile=%s reproduced=%s panic=%s" % (info["harness"], "release" if rel else "dev",
                                                          r["reproduced"], r["panic"]))
        if r["reproduced"]:
            rc = 1
    if rc == 1:
        log("VIOLATION property=%s replay=%s" % (prop, path))
    sc.cleanup()
    return rc
