"""C18 — partial: arena (stable references, dense ids) + SmallVec; the interning hash maps are outside."""
import itertools
import os

from common import Harness, VERIF, source_lines
from kani_prop import ARENA_SCALE, Attach, run_incrate, replay_incrate

PROP = "C18"
AR = "c18_arena.rs"
SV = "c18_small_vec.rs"
PL = "c18_pool.rs"
SHIMS = ("ahash", "elsa", "indexmap", "futures", "event-listener", "bitvec", "tracing")


def H(name, file, **kw):
    h = Harness(name, **kw)
    h.group_file = file
    return h


def build(tier, seed):
    hs = []
    atext = open(os.path.join(VERIF, "kani", AR)).read()
    # reads of a slot in a chunk that was added AFTER the chunk vector grew (e.g. element 4 of 5) ran out of memory
    # (20 GB) - CBMC loses track of the inner Vec pointers through the realloc of the outer vector; those shapes
    # are outside the claim.  (K, R): K allocations, element R resolved (R = 0: only the held reference).
    shapes = [(1, 0), (4, 3), (5, 0)] if tier == "quick" else [(1, 0), (2, 1), (3, 2), (4, 3), (5, 0), (8, 0), (9, 0)]
    for k, r in shapes:
        name = "c18_arena_%d_r%d" % (k, r)
        atext += "\n#[kani::proof]\n#[kani::unwind(12)]\nfn %s() {\n    arena_case::<%d, %d>();\n}\n" % (name, k, r)
        hs.append(H(name, AR, bounds="%d allocations of symbolic u32 into Arena<SolvableId,u32> (CHUNK_SIZE scaled to 4: %d chunk boundaries crossed); the reference to element 0 taken after the first allocation is dereferenced after the last; element %d resolved" % (k, (k - 1) // 4, r),
                    symbolic=["allocated values"], enumerated=["%d allocations" % k, "resolved id %d" % r], min_covers=2,
                    timeout=1500, mem_gb=20, group="c18_arena"))
    for k in ((2,) if tier == "quick" else (2, 3)):
        hs.append(H("c18_arena_iter_%d" % k, AR, bounds="%d allocations, iter() driven by %d next() calls" % (k, k + 1), symbolic=["allocated values"],
                    enumerated=["%d allocations" % k], min_covers=1, timeout=1500, mem_gb=20, group="c18_arena_iter"))
    h = H("c18_arena_index_out_of_range_panics", AR, bounds="5 allocations, index with any id in 5..16: must panic on the bounds assert and never read out of bounds",
          symbolic=["index", "values"], enumerated=["5 allocations"], timeout=600, group="c18_arena_oob")
    h.should_panic = True
    hs.append(h)
    hs.append(H("c18_arena_twin_must_fail", AR, bounds="vacuity twin", expect="fail", timeout=600, group="c18_arena"))
    # SmallVec
    text = open(os.path.join(VERIF, "kani", SV)).read()
    hs[0:0] = []
    hs.append(H("c18_sv_twin_must_fail", SV, bounds="vacuity twin", expect="fail", timeout=600, group="c18_sv"))
    hs.append(H("c18_sv_symbolic_kinds_inline", SV, bounds="2 operations with symbolic kinds (push/pop/clear) and values", symbolic=["operation kinds", "values"],
                min_covers=2, timeout=600, group="c18_sv"))
    maxlen = 3 if tier == "quick" else 4
    seqs = []
    for n in range(1, maxlen + 1):
        seqs += list(itertools.product((0, 1, 2), repeat=n))
    # prefixes are covered by longer sequences (every step is checked): only run maximal-length ones + all shorter ones that end in pop/clear? keep it simple: maximal length only
    seqs = [s for s in seqs if len(s) == maxlen]
    # thorough also pushes past the inline capacity and back: fixed long sequences
    extra = [(0, 0, 0, 0, 1), (0, 0, 0, 1, 1), (0, 0, 0, 2, 0), (0, 0, 0, 1, 0)]
    for s in seqs + (extra if tier == "thorough" else extra[:2]):
        name = "c18_sv_" + "".join("PQC"[k] for k in s)
        text += "\n#[kani::proof]\n#[kani::unwind(24)]\nfn %s() {\n    seq::<%d>([%s]);\n}\n" % (name, len(s), ", ".join(str(k) for k in s))
        ops = ["push", "pop", "clear"]
        hs.append(H(name, SV, bounds="operation sequence %s on SmallVec<u32>, pushed values symbolic; as_slice/len/pop results vs. reference array after every step; clone and ==" % [ops[k] for k in s],
                    symbolic=["pushed values"], enumerated=["operation kinds %s" % [ops[k] for k in s]], min_covers=1,
                    timeout=600, mem_gb=12, group="c18_sv_seq", instance={"ops": [ops[k] for k in s]}))
    # Pool interning through the dependency shims (DESIGN 8.1): FrozenCopyMap's HashMap is an association list
    pool = [
        ("c18_pool_names_equal", "two package names with EQUAL symbolic values (u8 newtype) interned, re-interned, looked up, resolved; reference from before the second interning re-read", ["name value"], ["equal"], 600),
        ("c18_pool_names_distinct", "two package names with DIFFERENT symbolic values interned, re-interned, looked up, resolved; a third never-interned value is not found; early reference re-read", ["name values"], ["distinct"], 600),
        ("c18_pool_vs_same_same", "version sets (package, value): same package, equal symbolic values", ["version set value"], ["same package", "equal values"], 900),
        ("c18_pool_vs_same_name_other_value", "version sets: same package, different symbolic values", ["version set values"], ["same package", "distinct values"], 900),
        ("c18_pool_vs_other_name_same_value", "version sets: different packages, equal symbolic values (must get different ids)", ["version set value"], ["two packages", "equal values"], 900),
        ("c18_pool_solvables_unions", "two solvables with the same symbolic record, two unions over two version sets: ids dense and unique, members in the given order", ["record"], ["2 solvables", "2 unions"], 1800),
    ]
    for name, bounds, sym, enum, to in pool:
        hs.append(H(name, PL, bounds=bounds + "; Pool<VS(u8), N(u8)>; CHUNK_SIZE scaled to 4; hash maps replaced by the association-list shim",
                    symbolic=sym, enumerated=enum, min_covers=1, timeout=to, mem_gb=20, group="c18_pool"))
    hs.append(H("c18_pool_twin_must_fail", PL, bounds="vacuity twin", expect="fail", timeout=600, group="c18_pool"))
    return (atext, text), hs


def functions():
    a, s = "src/internal/arena.rs", "src/internal/small_vec.rs"
    return [
        source_lines(a, r"pub fn with_capacity", r"Returns the size of the arena"),
        source_lines(a, r"pub fn alloc\(", r"Returns an iterator over the elements"),
        source_lines(a, r"pub fn get_two_mut", r"^}"),
        source_lines(a, r"impl<TId: ArenaId, TValue> Index<TId>", r"A trait indicating"),
        source_lines(a, r"impl<'a, TId: ArenaId, TValue> Iterator for ArenaIter<", r"An mutable iterator"),
        source_lines(s, r"pub fn as_slice", r"pub fn iter\("),
    ]


ASSUMPTIONS = [
    "Kani 0.68 / CBMC 6.11 with its pointer/bounds/dead-object checks on the dev-profile MIR of the real Arena and SmallVec",
    "arena.rs CHUNK_SIZE scaled 128 -> 4 in the scratch copy (132 allocations across the real chunk do not finish, DESIGN P12); the claim is for the scaled constant",
    "allocation counts and SmallVec operation kinds are enumerated (they decide Vec lengths / enum variants); values and indices are symbolic; instantiations Arena<SolvableId,u32>, SmallVec<u32>",
    "Pool harnesses (DESIGN 8.1): the crate is built against the dependency shims, so FrozenCopyMap's std HashMap is an association list with the same map laws; hashing itself (a wrong Hash/Eq pair, collisions) is therefore NOT exercised; instantiation Pool<VS(u8), N(u8)>; whether two interned values are equal is ENUMERATED per harness (it decides whether a second slot is allocated), the values are symbolic",
    "intern_string is not covered (String allocation with symbolic contents, DESIGN P21)",
]
RULE = ("one evaluation = one CBMC property decided SUCCESS in a SUCCESSFUL harness (for the should_panic harness: SUCCESSFUL means the bounds assert fired on every path and no pointer check failed); "
        "non-trivial = all cover witnesses SATISFIED")


def attaches(tier, seed):
    (atext, text), _ = build(tier, seed)
    return [Attach(AR, "src/internal/arena.rs", "verif_c18a", text=atext), Attach(SV, "src/internal/small_vec.rs", "verif_c18s", text=text),
            Attach(PL, "src/utils/pool.rs", "verif_c18p")]


def run(tier, seed, only):
    _, hs = build(tier, seed)
    return run_incrate(PROP, tier, seed, only, attaches(tier, seed), hs, functions() + [
        source_lines("src/utils/pool.rs", r"pub fn intern_string", r"^pub struct NameDisplay"),
        source_lines("src/internal/frozen_copy_map.rs", r"pub fn insert_copy", r"^impl<K: Eq \+ Hash, V, S: Default>")],
        ASSUMPTIONS, ["library shims: ahash/elsa/indexmap/futures/event-listener/bitvec/tracing replaced by /verif/shims (association lists, empty logging macros)"], RULE,
        scalings=[ARENA_SCALE], jobs=10, shims=SHIMS)


def replay(path):
    return replay_incrate(PROP, path, attaches("thorough", 0), scalings=[ARENA_SCALE], shims=SHIMS)
