"""C15 — at-most-one (binary/log) encoding kernel: real AtMostOnceTracker executed natively, emitted CNF decided by z3."""
import json
import cert_prop
import os
import re
import shutil
import subprocess
import time

from common import (EVIDENCE_DIR, REPLAY_DIR, VERIF, Inconclusive, Scratch, load_known_findings, log, native_env,
                    run_capped, source_lines, write_evidence)

PROP = "C15"


def build_native(sc, crate, release_too=False):
    dst = os.path.join(sc.dir, crate)
    shutil.copytree(os.path.join(VERIF, "native", crate), dst)
    shutil.copyfile(os.path.join(sc.repo, "Cargo.lock"), os.path.join(dst, "Cargo.lock"))
    bins = {}
    for prof in (["dev", "release"] if release_too else ["dev"]):
        cmd = ["cargo", "build", "--offline", "--quiet"] + (["--release"] if prof == "release" else [])
        rc, out, wall, to = run_capped(cmd, dst, native_env(), 900, None, os.path.join(sc.dir, "logs_%s_%s.log" % (crate, prof)))
        if rc != 0 or to:
            raise Inconclusive("building %s (%s) failed: %s" % (crate, prof, out[-800:]))
        bins[prof] = os.path.join(dst, "target", "debug" if prof == "dev" else "release", crate)
    return bins


def native_pair_check(sc, bins, n, picks, scenario="c15"):
    """Runs the real Solver::solve on the C15 scenario; returns dict profile -> RESULT line."""
    out = {}
    for prof, b in bins.items():
        p = subprocess.run([b, scenario, str(n)] + [str(x) for x in picks], capture_output=True, text=True, timeout=600)
        m = re.search(r"^RESULT (.*)$", p.stdout, re.M)
        out[prof] = m.group(1) if m else "crash rc=%s %s" % (p.returncode, p.stderr[-300:])
    return out


def run(tier, seed, only):
    t0 = time.time()
    nmax = 130 if tier == "quick" else 1030
    full_q2 = 40 if tier == "quick" else 140
    sc = Scratch("c15")
    os.makedirs(os.path.join(sc.dir, "logs"), exist_ok=True)
    drv = build_native(sc, "c15drv")["dev"]
    runs = []
    violations, errors = [], []
    totals = {"q1": 0, "q2": 0, "q3": 0, "cvc5_q1": 0, "q2_skipped_unchanged": 0}
    solver_time = 0.0
    samples = []
    orders = [0, 1 + (seed % 1000)]          # identity discovery order + one seeded permutation
    for order_seed in orders:
        logp = os.path.join(sc.dir, "emit_%d.jsonl" % order_seed)
        with open(logp, "w") as f:
            p = subprocess.run([drv, str(nmax), str(order_seed)], stdout=f, stderr=subprocess.PIPE, text=True, timeout=600)
        if p.returncode != 0:
            # a panic inside the real tracker (e.g. shift overflow) is a finding candidate, replayed below
            errors.append("driver crashed for order %d: %s" % (order_seed, p.stderr[-300:]))
            continue
        this_nmax = nmax if order_seed == 0 else min(nmax, 260)
        rc, out, wall, to = run_capped(["python3-vt", os.path.join(VERIF, "lib", "c15_z3.py"), logp, str(this_nmax), str(full_q2)],
                                       VERIF, dict(os.environ), 3000, 16)
        if to or rc != 0:
            errors.append("z3 stage failed (rc=%s timeout=%s): %s" % (rc, to, out[-300:]))
            continue
        res = json.loads(out.strip().split("\n")[-1])
        res["discovery_order_seed"] = order_seed
        runs.append({k: res[k] for k in ("nmax", "n_reached", "q1", "q2", "q3", "cvc5_q1", "q2_skipped_unchanged",
                                         "helpers_at_nmax", "clauses_at_nmax", "solver_time_s", "discovery_order_seed")})
        for k in totals:
            totals[k] += res[k]
        solver_time += res["solver_time_s"]
        errors += res["errors"]
        samples += res["samples"][:3]
        for v in res["violations"]:
            v["discovery_order_seed"] = order_seed
            violations.append(v)
        if res["n_reached"] < this_nmax and not res["violations"]:
            errors.append("emission log ended at n=%d < %d" % (res["n_reached"], this_nmax))

    # ---- replay of solver counterexamples through the real Solver::solve ------------------------------------
    confirmed = []
    native_runs = 0
    bins = None
    if violations:
        bins = build_native(sc, "vnative", release_too=True)
        for v in violations[:4]:
            if v["q"] == "Q1":
                r = native_pair_check(sc, bins, v["n"], [v["i"], v["j"]])
                bad = [p for p, line in r.items() if not line.startswith("unsolvable")]
                if not bad:
                    # the kernel's indices are discovery positions: reveal all n candidates first, then require the two
                    r = native_pair_check(sc, bins, v["n"], [v["i"], v["j"]], scenario="c15r")
                    bad = [p for p, line in r.items() if not line.startswith("unsolvable")]
                    v["witness"] = "all candidates revealed by a first requirement, then positions i and j required"
            elif v["q"] == "Q2":
                r = native_pair_check(sc, bins, v["n"], [v["i"]])
                bad = [p for p, line in r.items() if not line.startswith("solution a=%d" % v["i"])]
                if not bad:
                    r = native_pair_check(sc, bins, v["n"], [v["i"]], scenario="c15r")
                    bad = [p for p, line in r.items() if not line.startswith("solution a=%d" % (v["n"] - 1 - v["i"]))]
            else:
                r, bad = {}, ["dev"]   # Q3 is a direct observation of the real code's output
            native_runs += 1
            v["native"] = r
            if bad:
                confirmed.append(v)
    # positive control on every run: the real solver agrees with the solver-side verdicts on two boundary sizes
    control = {}
    if not violations:
        bins = build_native(sc, "vnative", release_too=(tier == "thorough"))
        for n, picks, expect in ((9, [3, 8], "unsolvable"), (9, [8], "solution a=8"), (17, [0, 16], "unsolvable"),
                                 (17, [16], "solution a=16")):
            r = native_pair_check(sc, bins, n, picks)
            native_runs += 1
            control["n=%d picks=%s" % (n, picks)] = r
            for prof, line in r.items():
                if not line.startswith(expect):
                    confirmed.append({"q": "control", "n": n, "picks": picks, "native": r,
                                      "what": "real Solver::solve verdict differs from the CNF verdict"})
                    break

    known, _ = load_known_findings()
    known_keys = {k["key"]: k for k in known if k["property"] == PROP}
    rc = 0
    reported = []
    for v in confirmed:
        key = "c15:%s" % v["q"]
        if key in known_keys:
            log("KNOWN-FINDING: property=%s %s [%s]" % (PROP, known_keys[key]["what"], key))
            continue
        os.makedirs(os.path.join(REPLAY_DIR, PROP), exist_ok=True)
        rp = os.path.join(REPLAY_DIR, PROP, "%s_n%s.json" % (v["q"], v.get("n")))
        json.dump(v, open(rp, "w"), indent=1)
        log("VIOLATION property=%s replay=%s" % (PROP, rp))
        log("  %s" % json.dumps(v)[:400])
        reported.append(rp)
        rc = 1
    unconfirmed = [v for v in violations if v not in confirmed]
    if unconfirmed and rc == 0:
        errors.append("solver counterexample(s) not reproduced by the real Solver::solve: %s" % json.dumps(unconfirmed)[:400])
    if errors and rc == 0:
        rc = 2
        for e in errors:
            log("INCONCLUSIVE property=%s %s" % (PROP, e))

    # ---- the encoder's REGISTRATION of candidates (encoding.rs), through the certificate engine ---------------
    cert_cov = {}
    if not only:
        try:
            csc = Scratch("c15_cert")
            cbins = cert_prop.build_driver(csc)
            summary = cert_prop.sweep(cbins, PROP, tier, seed)
            cv, ck = [], []
            cert_prop.process(PROP, summary, cv, ck, csc)
            cert_cov = cert_prop.coverage_of(summary)
            cert_cov["cert_samples"] = summary["samples"][:2]
            for v in cv:
                reported.append(v["replay"])
                rc = 1
            if summary["relevant"] < 2 and rc == 0:
                rc = 2
                log("INCONCLUSIVE property=%s certificate sweep did not produce forbid clauses" % PROP)
            csc.cleanup()
        except Inconclusive as e:
            if rc == 0:
                rc = 2
            log("INCONCLUSIVE property=%s certificate engine: %s" % (PROP, e))

    b = "src/solver/binary_encoding.rs"
    coverage = {
        "evaluations": totals["q1"] + totals["q2"] + totals["q3"] + totals["cvc5_q1"],
        "distinct_nontrivial": sum(r["q1"] for r in runs),
        "rule": "evaluations = solver queries answered (Q1 per size n>=2, Q2 per (n,i) whose clauses changed or on boundary/full sizes, Q3 per duplicate add, cvc5 re-asks of Q1); "
                "distinct_nontrivial = distinct (discovery order, n) sizes with n >= 2 whose Q1 query (all pairs at once, all helper assignments) was answered",
        "samples": samples[:6],
        "queries_discharged": totals,
        "solver_time_s": round(solver_time, 1),
        "functions_encoded": [source_lines(b, r"pub fn add\(", r"^}")],
        "runs": runs,
        "bounds": {"n_max": nmax, "n_max_permuted_order": min(nmax, 260), "q2_all_i_up_to_n": full_q2,
                   "boundary_sizes": "2^k-1, 2^k, 2^k+1 for every k with 2^k-1 <= n_max"},
        "native_solver_runs": native_runs,
        "native_control": control,
        "traces_validated_against_impl": native_runs,
        "violations_found": violations[:5],
        "inconclusive": errors,
        "exhaustive": False,
    }
    coverage.update(cert_cov)
    assumptions = cert_prop.CERT_ASSUMPTIONS + [
        "certificate part: for every enumerated universe the forbid clauses the REAL encoder emitted per package are decided by z3: no two registered candidates together (all helper values), every single one selectable, every pair of candidates revealed through requirements is excluded by the whole clause database",
        "the real binary_encoding.rs is executed natively (#[path]-included, pinned 1.86); its control flow depends only on how many distinct variables were added, so one run per n is its complete symbolic execution for that n",
        "z3 decides the emitted CNF over all assignments of candidates and helpers; cvc5 re-decides Q1 at boundary sizes",
        "Q2(n,i) is skipped when no clause mentioning x_i was added since it was last asked (clauses of other candidates are satisfied by their negative literals); all i are asked for n <= q2_all_i_up_to_n and at boundary sizes",
        "outside the claim: the encoder's registration order/grouping (encoding.rs), clause use by propagation, n above the bound",
    ]
    write_evidence(PROP, tier, seed, coverage, assumptions, time.time() - t0, len(reported))
    if rc == 0:
        log("OK property=%s tier=%s n_max=%d queries=%s solver_time=%.1fs wall=%.1fs" % (PROP, tier, nmax, totals, solver_time, time.time() - t0))
    sc.cleanup()
    return rc


def replay(path):
    if cert_prop.is_cert_replay(path):
        return cert_prop.replay_cert(PROP, path)
    v = json.load(open(path))
    sc = Scratch("c15_replay")
    os.makedirs(os.path.join(sc.dir, "logs"), exist_ok=True)
    bins = build_native(sc, "vnative", release_too=True)
    picks = [v["i"], v["j"]] if v["q"] == "Q1" else [v["i"]] if v["q"] == "Q2" else v.get("picks", [])
    r = native_pair_check(sc, bins, v["n"], picks)
    log("replay n=%s picks=%s -> %s" % (v["n"], picks, r))
    expect_unsolvable = len(picks) == 2
    bad = [p for p, line in r.items() if line.startswith("unsolvable") != expect_unsolvable]
    if not bad:
        r = native_pair_check(sc, bins, v["n"], picks, scenario="c15r")
        log("replay (all candidates revealed first) n=%s positions=%s -> %s" % (v["n"], picks, r))
        bad = [p for p, line in r.items() if line.startswith("unsolvable") != expect_unsolvable]
    sc.cleanup()
    if bad:
        log("VIOLATION property=%s replay=%s" % (PROP, path))
        return 1
    return 0
