"""C05 — partial: the trail-undo kernel (DecisionTracker)."""
from common import Harness, source_lines
from kani_prop import Attach, run_incrate, replay_incrate
from cert_prop import CERT_ASSUMPTIONS, cert_extra, is_cert_replay, replay_cert

PROP = "C05"
SRC = "dt_trail.rs"
ATTACH = [Attach(SRC, "src/solver/decision_tracker.rs", "verif_dt")]
SHAPES = {1: [0], 2: [0, 3], 3: [0, 2, 1], 4: [0, 3, 1, 4]}


PATHS_HARNESS = False   # measured: no answer in 2400 s (path explosion over symbolic levels) - kept in the file, not run


def H(name, **kw):
    h = Harness(name, **kw)
    h.group_file = SRC
    return h


def harnesses(tier):
    hs = []
    ns = (1, 2, 3) if tier == "quick" else (1, 2, 3, 4)
    for n in ns:
        hs.append(H("dt_undo_until_%d" % n,
                    bounds="trail of %d decisions on variables %s; values symbolic; levels non-decreasing in 1..=1000; reasons symbolic; 0..%d already propagated; target level 0 or bottom-level..=1001" % (n, SHAPES[n], n),
                    symbolic=["values", "levels", "reasons", "propagated prefix length", "target level"],
                    enumerated=["trail length %d" % n, "variable ids %s" % SHAPES[n]],
                    min_covers=3 if n >= 2 else 2, timeout=900, group="dt_undo_until"))
    for n in ns:
        if n < 2:
            continue
        hs.append(H("dt_undo_last_%d" % n,
                    bounds="trail of %d decisions on variables %s; 1..%d pops (never the bottom decision)" % (n, SHAPES[n], n - 1),
                    symbolic=["values", "levels", "reasons", "number of pops"],
                    enumerated=["trail length %d" % n, "variable ids %s" % SHAPES[n]], min_covers=1, timeout=900,
                    group="dt_undo_last"))
    hs.append(H("dt_readd_is_noop_or_conflict", bounds="one decision on variable 2, re-added with any value at any level <= 1000",
                symbolic=["values", "levels"], enumerated=["variable id 2"], min_covers=2, timeout=600, group="dt_readd"))
    hs.append(H("dt_clear_resets_everything", bounds="trail of 3 decisions, one propagated, then clear()",
                symbolic=["values", "levels", "reasons"], enumerated=["variable ids [0,1,2]"], min_covers=1, timeout=600,
                group="dt_clear"))
    if tier == "thorough" and PATHS_HARNESS:
      hs.append(H("dt_paths_symbolic_length",
                bounds="trail of 1..=4 decisions (length SYMBOLIC, CBMC path mode) on variables [0,3,1,4]; values, non-decreasing levels <= 1000, propagated prefix and target level symbolic",
                symbolic=["trail length", "values", "levels", "propagated prefix length", "target level"], enumerated=["variable id order [0,3,1,4]"],
                min_covers=3, timeout=2400, mem_gb=16, group="dt_paths",
                extra_args=["-Z", "unstable-options", "--cbmc-args", "--paths", "lifo"]))
    hs.append(H("dt_twin_must_fail", bounds="vacuity twin of dt_undo_until_2", expect="fail", timeout=600, group="dt"))
    return hs


def functions():
    f = "src/solver/decision_tracker.rs"
    return [
        source_lines(f, r"pub\(crate\) fn clear", r"#\[cfg\(feature"),
        source_lines(f, r"pub\(crate\) fn find_clause_for_assignment", r"Attempts to add a decision"),
        source_lines(f, r"pub\(crate\) fn try_add_decision", r"pub\(crate\) fn undo_until"),
        source_lines(f, r"pub\(crate\) fn undo_until", r"pub\(crate\) fn undo_last"),
        source_lines(f, r"pub\(crate\) fn undo_last", r"Returns the next decision"),
        source_lines(f, r"pub\(crate\) fn next_unpropagated", r"^}"),
        source_lines("src/solver/decision_map.rs", r"pub fn reset", None) + " .. end (DecisionMap::reset/set/level/value)",
    ]


ASSUMPTIONS = [
    "Kani 0.68 / CBMC 6.11 / CaDiCaL on the dev-profile MIR of the real DecisionTracker/DecisionMap",
    "which variables are on the trail and how long it is are enumerated per harness (a symbolic number of pushes makes Vec lengths symbolic, DESIGN P11); values, levels (non-decreasing, <= 1000), reasons and the target level are symbolic",
    "undo_until target is 0 or >= the bottom decision's level; undo_last never pops the bottom decision (what run_sat/analyze guarantee: the root decision sits at the bottom)",
    "decide(), the support argument (every positive assignment is implied by a Requires/learnt clause) and hence the end-to-end 'no extraneous solvable' statement are NOT decided (hash containers, DESIGN R1)",
    "the tracker is leaked at the end of each harness",
]
RULE = ("one evaluation = one CBMC property decided SUCCESS in a SUCCESSFUL harness; harnesses are the enumerated trail shapes; non-trivial = all cover "
        "witnesses (nothing undone / full reset / proper prefix kept / popped to the bottom) SATISFIED")


def run(tier, seed, only):
    note = ["end-to-end part (certificate engine, NOT a solver query): every returned solution of the enumerated universes is checked for support - each selected solvable is reachable from the root (or an accepted soft requirement) through requirement edges whose chosen candidate is selected; this is an evaluation of the real output, the solver-decided part of C05 remains the trail-undo kernel"]
    return run_incrate(PROP, tier, seed, only, ATTACH, harnesses(tier), functions(), ASSUMPTIONS + CERT_ASSUMPTIONS + note, [], RULE,
                       extra=None if only else cert_extra(PROP, tier, seed))


def replay(path):
    if is_cert_replay(path):
        return replay_cert(PROP, path)
    return replay_incrate(PROP, path, ATTACH)
