"""C08 - direct requirements get their best candidate whenever that is possible.  Decided by the certificate engine only (DESIGN section 8.2)."""
from cert_prop import replay_cert, run_cert_only

PROP = "C08"
RULE = ('one evaluation = one z3 query; a universe is non-trivial for C08 when it has at least one single-package root requirement with a candidate; whenever the returned solution lacks the first-ranked candidate of one of them, z3 decides the antecedent - SAT(Spec(U) AND first-ranked candidates of ALL such requirements) - and a SAT answer is a violation')
FUNCTIONS = ['src/solver/mod.rs: decide (explicit-requirement preference, activity scores), analyze (activity bump), learn_from_conflict/backjump (executed natively)']
EXTRA = ["the existential antecedent ('some valid solution contains ...') is decided by z3 over all selections; universes are enumerated"]


def run(tier, seed, only):
    return run_cert_only(PROP, tier, seed, RULE, FUNCTIONS, EXTRA)


def replay(path):
    return replay_cert(PROP, path)
