"""C04 — partial: panic-freedom of the kernels under API-establishable preconditions + native public-API witnesses."""
import json
import os
import re
import subprocess
import time

from common import Harness, Inconclusive, KaniRunner, Scratch, VERIF, REPLAY_DIR, load_known_findings, log, source_lines
from driver import Outcome, finish, handle_results
from kani_prop import ARENA_SCALE, Attach, replay_incrate
import c05
import c15

PROP = "C04"
SRC = "c04_kernels.rs"
ATTACH = [Attach(SRC, "src/solver/clause.rs", "verif_c04"),
          Attach(c05.SRC, "src/solver/decision_tracker.rs", "verif_dt"),
          Attach("k1_literal.rs", "src/solver/clause.rs", "verif_k1")]


def H(name, file, **kw):
    h = Harness(name, **kw)
    h.group_file = file
    return h


def harnesses(tier):
    hs = [
        H("c04_constrains_distinct", SRC, bounds="any two distinct variable ids < 2^20 (root included), any version set id, empty trail",
          symbolic=["parent id", "forbidden id", "version set id"], min_covers=2, timeout=600, group="c04_constrains_distinct"),
        H("c04_constrains_self", SRC, bounds="any variable id < 2^20 constraining itself (a solvable whose constrains entry excludes its own version)",
          symbolic=["variable id", "version set id"], min_covers=1, timeout=600, group="c04_constrains_self"),
        H("c04_other_constructors", SRC, bounds="forbid_multiple (fresh helper), lock (non-root other), exclude, root, learnt of 1..3 literals over distinct variables; ids < 2^20",
          symbolic=["all ids", "polarities"], min_covers=1, timeout=600, group="c04_other"),
        H("c04_twin_must_fail", SRC, bounds="vacuity twin", expect="fail", timeout=600, group="c04"),
    ]
    # trail: undo_until/undo_last never unwrap an empty stack under run_sat's guarantees (same harnesses as C05)
    for h in c05.harnesses("quick" if tier == "quick" else "thorough"):
        if h.name.startswith("dt_undo"):
            h.group_file = c05.SRC
            hs.append(h)
    # DecisionAndLevel::with_value_and_level for every level <= i32::MAX (K1 eval harness)
    hs.append(H("k1_eval_var1", "k1_literal.rs", bounds="variable id 1; any value; level 1..=i32::MAX (debug_assert on the level bound)",
                symbolic=["value", "level"], enumerated=["variable id 1"], min_covers=2, timeout=300, group="k1"))
    return hs


def functions():
    c = "src/solver/clause.rs"
    return [
        source_lines(c, r"^    fn constrains\(", r"fn forbid_multiple"),
        source_lines(c, r"fn forbid_multiple", r"pub fn try_fold_literals"),
        source_lines(c, r"fn from_kind_and_initial_watches", r"pub fn next_unwatched_literal"),
        source_lines("src/solver/decision_tracker.rs", r"pub\(crate\) fn undo_until", r"Returns the next decision"),
        source_lines("src/solver/decision_map.rs", r"fn with_value_and_level", r"^}"),
    ]


ASSUMPTIONS = [
    "Kani 0.68 / CBMC 6.11: panic, assert!, debug_assert!, unreachable!, arithmetic overflow, out-of-bounds and invalid-pointer checks on the dev-profile MIR",
    "preconditions are limited to what the public API establishes: helper variables are fresh, locked-out candidates are not the root, learnt clauses have distinct variables, undo targets are >= the bottom level; `parent != forbidden` is NOT assumed for constrains (split into two harnesses so that the known self-constrains finding is keyed by its witness)",
    "termination and panic-freedom of Solver::solve, of Conflict::graph and of the renderer are NOT decided (hash containers, petgraph; DESIGN R1); the native witness runs below are replays, not the deciding step",
]
RULE = ("one evaluation = one CBMC property (Kani's automatic panic/overflow/bounds/pointer checks plus the harness assertions) decided SUCCESS in a SUCCESSFUL harness; "
        "non-trivial = all cover witnesses SATISFIED")

WITNESSES = {
    # scenario -> (args, expected RESULT prefix)
    "selfcons": (["selfcons"], None),
}


def native_witness(sc, out):
    """Public-API witness of the self-constrains counterexample: real Solver::solve + rendering, dev and release."""
    os.makedirs(os.path.join(sc.dir, "logs"), exist_ok=True)
    bins = c15.build_native(sc, "vnative", release_too=True)
    res = {}
    for prof, b in bins.items():
        try:
            p = subprocess.run([b, "selfcons"], capture_output=True, text=True, timeout=120)
            m = re.search(r"^RESULT (.*)$", p.stdout, re.M)
            if p.returncode != 0:
                pm = re.search(r"panicked at ([^\n]*)\n([^\n]*)", p.stderr)
                res[prof] = "PANIC " + ((pm.group(1) + " " + pm.group(2)) if pm else "rc=%d" % p.returncode)
            else:
                res[prof] = m.group(1) if m else "no RESULT line"
        except subprocess.TimeoutExpired:
            res[prof] = "HANG (>120s)"
    out.traces_validated += len(res)
    return res


def run(tier, seed, only):
    t0 = time.time()
    sc = Scratch("c04")
    sc.scale(*ARENA_SCALE)
    file_of = {}
    for a in ATTACH:
        p = sc.add_harness_file(os.path.join(VERIF, "kani", a.src))
        sc.attach(a.host, p, a.modname)
        file_of[a.src] = p
    modpath = {SRC: "solver::clause::verif_c04", c05.SRC: "solver::decision_tracker::verif_dt",
               "k1_literal.rs": "solver::clause::verif_k1"}
    hs = harnesses(tier)
    for h in hs:
        h.qual = modpath[h.group_file] + "::" + h.name
    hs = [h for h in hs if (not only or re.search(only, h.name))]
    runner = KaniRunner(sc, sc.repo, jobs=8)
    results = runner.run_all(hs)
    out = Outcome()
    handle_results(PROP, results, runner, sc, sc.repo, lambda h: file_of[h.group_file], out)
    # the self-constrains kernel counterexample is additionally shown through the public API
    self_failed = any(r["harness"].name == "c04_constrains_self" and r["status"] == "fail" for r in results)
    wit = native_witness(sc, out)
    out.extra_coverage["public_api_witness_selfcons"] = wit
    bad = {p: r for p, r in wit.items() if r.startswith("PANIC") or r.startswith("HANG")}
    known, _ = load_known_findings()
    kk = {k["key"] for k in known if k["property"] == PROP}
    if bad:
        key = "c04_selfcons_api:" + "_".join(sorted(bad))
        if "c04_constrains_self:assertion_failed_watched_literals_0_watched_literals_1" in kk:
            log("KNOWN-FINDING: property=%s public-API witness (a=1 constrains a in {2}): %s" % (PROP, bad))
        else:
            os.makedirs(os.path.join(REPLAY_DIR, PROP), exist_ok=True)
            rp = os.path.join(REPLAY_DIR, PROP, "selfcons_api.json")
            json.dump({"scenario": "selfcons", "results": wit}, open(rp, "w"), indent=1)
            out.violations.append({"key": key, "what": "solve/rendering panics or hangs on a solvable that constrains itself: %s" % bad, "replay": rp})
    elif self_failed:
        log("note: kernel counterexample constrains(p,p) did not surface through the public API witness: %s" % wit)
    rc = finish(PROP, tier, seed, out, t0, functions(), ASSUMPTIONS, [], sc.scalings, RULE)
    sc.cleanup()
    return rc


def replay(path):
    info = json.load(open(path))
    if info.get("scenario") == "selfcons":
        sc = Scratch("c04_replay")
        out = Outcome()
        wit = native_witness(sc, out)
        log("replay selfcons -> %s" % wit)
        sc.cleanup()
        if any(r.startswith("PANIC") or r.startswith("HANG") for r in wit.values()):
            log("VIOLATION property=%s replay=%s" % (PROP, path))
            return 1
        return 0
    return replay_incrate(PROP, path, ATTACH, scalings=[ARENA_SCALE])
