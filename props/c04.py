"""C04 — partial: panic-freedom of the kernels under API-establishable preconditions + native public-API witnesses."""
import json
import os
import re
import subprocess
import time

from common import Harness, Inconclusive, KaniRunner, Scratch, VERIF, REPLAY_DIR, load_known_findings, log, source_lines
from driver import Outcome, finish, handle_results
from kani_prop import ARENA_SCALE, Attach, replay_incrate
import c05
import c15
import cert_prop

PROP = "C04"
SRC = "c04_kernels.rs"
ATTACH = [Attach(SRC, "src/solver/clause.rs", "verif_c04"),
          Attach(c05.SRC, "src/solver/decision_tracker.rs", "verif_dt"),
          Attach("k1_literal.rs", "src/solver/clause.rs", "verif_k1")]


def H(name, file, **kw):
    h = Harness(name, **kw)
    h.group_file = file
    return h


def harnesses(tier):
    hs = [
        H("c04_constrains_distinct", SRC, bounds="any two distinct variable ids < 2^20 (root included), any version set id, empty trail",
          symbolic=["parent id", "forbidden id", "version set id"], min_covers=2, timeout=600, group="c04_constrains_distinct"),
        H("c04_constrains_self", SRC, bounds="PROBE: any variable id < 2^20 constraining itself (a solvable whose constrains entry excludes its own version)",
          symbolic=["variable id", "version set id"], min_covers=1, timeout=600, group="c04_constrains_self"),
        H("c04_probe_parent_false", SRC, bounds="PROBE: requires()/constrains() for parent variable 1 with any assigned value at any level <= 1000",
          symbolic=["parent value", "level", "constructor"], min_covers=1, timeout=600, group="c04_probe_parent_false"),
        H("c04_other_constructors", SRC, bounds="forbid_multiple (fresh helper), lock (non-root other), exclude, root, learnt of 1..3 literals over distinct variables; ids < 2^20",
          symbolic=["all ids", "polarities"], min_covers=1, timeout=600, group="c04_other"),
        H("c04_twin_must_fail", SRC, bounds="vacuity twin", expect="fail", timeout=600, group="c04"),
    ]
    # trail: undo_until/undo_last never unwrap an empty stack under run_sat's guarantees (same harnesses as C05)
    for h in c05.harnesses("quick" if tier == "quick" else "thorough"):
        if h.name.startswith("dt_undo"):
            h.group_file = c05.SRC
            hs.append(h)
    # DecisionAndLevel::with_value_and_level for every level <= i32::MAX (K1 eval harness)
    hs.append(H("k1_eval_var1", "k1_literal.rs", bounds="variable id 1; any value; level 1..=i32::MAX (debug_assert on the level bound)",
                symbolic=["value", "level"], enumerated=["variable id 1"], min_covers=2, timeout=300, group="k1"))
    return hs


def functions():
    c = "src/solver/clause.rs"
    return [
        source_lines(c, r"^    fn constrains\(", r"fn forbid_multiple"),
        source_lines(c, r"fn forbid_multiple", r"pub fn try_fold_literals"),
        source_lines(c, r"fn from_kind_and_initial_watches", r"pub fn next_unwatched_literal"),
        source_lines("src/solver/decision_tracker.rs", r"pub\(crate\) fn undo_until", r"Returns the next decision"),
        source_lines("src/solver/decision_map.rs", r"fn with_value_and_level", r"^}"),
    ]


ASSUMPTIONS = [
    "Kani 0.68 / CBMC 6.11: panic, assert!, debug_assert!, unreachable!, arithmetic overflow, out-of-bounds and invalid-pointer checks on the dev-profile MIR",
    "PROBE harnesses (constrains(p,p); requires/constrains with a parent already assigned false) assume nothing: a kernel counterexample is reported only if a public-API witness scenario (native run of the real Solver::solve + rendering in dev and release: `selfcons`, `selfcons_preferred`, `hintedfalse`) shows the encoder can get there; these native runs are replays, not the deciding step",
    "preconditions are limited to what the public API establishes: helper variables are fresh, locked-out candidates are not the root, learnt clauses have distinct variables, undo targets are >= the bottom level; `parent != forbidden` is NOT assumed for constrains (split into two harnesses so that the known self-constrains finding is keyed by its witness)",
    "termination and panic-freedom of Solver::solve, of Conflict::graph and of the renderer are NOT decided (hash containers, petgraph; DESIGN R1); the native witness runs below are replays, not the deciding step",
]
RULE = ("one evaluation = one CBMC property (Kani's automatic panic/overflow/bounds/pointer checks plus the harness assertions) decided SUCCESS in a SUCCESSFUL harness; "
        "non-trivial = all cover witnesses SATISFIED")

# Probes: kernel harnesses whose precondition is NOT assumed.  A kernel-level counterexample only counts if the
# corresponding public-API witness scenarios (native runs of the real Solver::solve + rendering, dev and release)
# show that the encoder can actually get there; otherwise the precondition is established by the callers.
PROBES = {
    "c04_constrains_self": ["selfcons", "selfcons_preferred"],
    "c04_probe_parent_false": ["hintedfalse"],
}
EXPECT = {"selfcons": "unsolvable", "selfcons_preferred": "solution a=2", "hintedfalse": "solution a=1 p=1"}


def run_witness(bins, scenario):
    res = {}
    for prof, b in bins.items():
        try:
            p = subprocess.run([b, scenario], capture_output=True, text=True, timeout=120)
            m = re.search(r"^RESULT (.*)$", p.stdout, re.M)
            if p.returncode != 0:
                pm = re.search(r"panicked at ([^\n]*)\n([^\n]*)", p.stderr)
                res[prof] = "PANIC " + ((pm.group(1) + " " + pm.group(2)) if pm else "rc=%d" % p.returncode)
            else:
                res[prof] = m.group(1) if m else "no RESULT line"
        except subprocess.TimeoutExpired:
            res[prof] = "HANG (>120s)"
    return res


def bad_result(scenario, line):
    if line.startswith("PANIC") or line.startswith("HANG") or line.startswith("no RESULT"):
        return True
    if scenario == "selfcons" and line.startswith("unsolvable message_lines="):
        return int(line.split("=")[1]) < 2          # degenerate (header-only) conflict message
    return not line.startswith(EXPECT[scenario])


def run(tier, seed, only):
    t0 = time.time()
    sc = Scratch("c04")
    sc.scale(*ARENA_SCALE)
    file_of = {}
    for a in ATTACH:
        p = sc.add_harness_file(os.path.join(VERIF, "kani", a.src))
        sc.attach(a.host, p, a.modname)
        file_of[a.src] = p
    modpath = {SRC: "solver::clause::verif_c04", c05.SRC: "solver::decision_tracker::verif_dt",
               "k1_literal.rs": "solver::clause::verif_k1"}
    hs = harnesses(tier)
    for h in hs:
        h.qual = modpath[h.group_file] + "::" + h.name
    hs = [h for h in hs if (not only or re.search(only, h.name))]
    runner = KaniRunner(sc, sc.repo, jobs=8)
    results = runner.run_all(hs)
    out = Outcome()
    normal = [r for r in results if r["harness"].name not in PROBES]
    probes = [r for r in results if r["harness"].name in PROBES]
    handle_results(PROP, normal, runner, sc, sc.repo, lambda h: file_of[h.group_file], out)
    # ---- probes + public-API witnesses ----------------------------------------------------------------------
    os.makedirs(os.path.join(sc.dir, "logs"), exist_ok=True)
    bins = c15.build_native(sc, "vnative", release_too=True)
    known, _ = load_known_findings()
    kk = {k["key"]: k for k in known if k["property"] == PROP}
    witness_log = {}
    for r in probes:
        h, p = r["harness"], r["parsed"]
        rec = {"harness": h.name, "bounds": h.bounds, "symbolic": h.symbolic, "enumerated": h.enumerated,
               "verdict": r["status"], "expect": "probe", "checks_decided": p["n_success"], "checks_total": p["n_checks"],
               "covers": "%d/%d" % (p["covers_satisfied"], p["covers_total"]), "cbmc_time_s": p["verification_time_s"],
               "wall_s": r["wall_s"]}
        out.harness_records.append(rec)
        if p["verification_time_s"]:
            out.solver_time += p["verification_time_s"]
        if r["status"] == "inconclusive":
            out.inconclusive.append("%s: %s" % (h.name, r["why"]))
            continue
        out.evaluations += p["n_success"]
        out.discharged += p["n_success"]
        kernel_cex = r["status"] == "fail"
        rec["kernel_counterexample"] = [c["description"] for c in p["failed_checks"]][:3] if kernel_cex else None
        reachable = {}
        for scen in PROBES[h.name]:
            w = run_witness(bins, scen)
            out.traces_validated += len(w)
            witness_log[scen] = w
            bad = {prof: line for prof, line in w.items() if bad_result(scen, line)}
            if bad:
                reachable[scen] = bad
        rec["public_api_witnesses"] = {s_: witness_log[s_] for s_ in PROBES[h.name]}
        if reachable:
            key = "%s:api_witness_%s" % (h.group, "+".join(sorted(reachable)))
            what = "public-API witness %s misbehaves: %s (kernel counterexample: %s)" % (sorted(reachable), reachable, rec["kernel_counterexample"])
            if key in kk:
                log("KNOWN-FINDING: property=%s %s [%s]" % (PROP, kk[key]["what"], key))
                out.known.append({"key": key, "what": kk[key]["what"]})
            else:
                os.makedirs(os.path.join(REPLAY_DIR, PROP), exist_ok=True)
                rp = os.path.join(REPLAY_DIR, PROP, "%s.json" % h.name)
                json.dump({"scenarios": sorted(reachable), "results": reachable, "harness": h.name}, open(rp, "w"), indent=1)
                out.violations.append({"key": key, "what": what, "replay": rp})
                log("VIOLATION property=%s replay=%s" % (PROP, rp))
                log("  %s" % what[:400])
        else:
            rec["verdict"] = "probe: kernel precondition %s; not reachable through the public-API witnesses" % (
                "violable in isolation" if kernel_cex else "not violable")
            if p["covers_total"] and p["covers_satisfied"] == p["covers_total"]:
                out.nontrivial += 1
    out.extra_coverage["public_api_witnesses"] = witness_log
    if not only:
        # native sweep of the certificate engine's universes (dev AND release): a panic in solve(), Conflict::graph,
        # graphviz or the user-friendly message is reported here.  This is an observation of real runs, not a solver query.
        cert_prop.cert_extra(PROP, tier, seed)(sc, out)
    rc = finish(PROP, tier, seed, out, t0, functions(), ASSUMPTIONS + [
        "additional native sweep (NOT the deciding step): the certificate engine's universes (families plain/full/wide/hints/soft/reuse) are solved by the real dev and release builds with conflict graph, graphviz and message rendering; any panic is a violation"], [], sc.scalings, RULE)
    sc.cleanup()
    return rc


def replay(path):
    if cert_prop.is_cert_replay(path):
        return cert_prop.replay_cert(PROP, path)
    info = json.load(open(path))
    if "scenarios" in info:
        sc = Scratch("c04_replay")
        os.makedirs(os.path.join(sc.dir, "logs"), exist_ok=True)
        bins = c15.build_native(sc, "vnative", release_too=True)
        rc = 0
        for scen in info["scenarios"]:
            w = run_witness(bins, scen)
            log("replay %s -> %s" % (scen, w))
            if any(bad_result(scen, line) for line in w.values()):
                rc = 1
        sc.cleanup()
        if rc:
            log("VIOLATION property=%s replay=%s" % (PROP, path))
        return rc
    return replay_incrate(PROP, path, ATTACH, scalings=[ARENA_SCALE])
