"""C17 — partial: the Rust halves of the FFI containers (Vector, String, Slice) under Kani's memory checks."""
import os
import re
import shutil
import time

from common import Harness, Inconclusive, KaniRunner, Scratch, VERIF, log, source_lines, playback
from driver import Outcome, finish, handle_results

PROP = "C17"
VEC = "c17_vector.rs"
STR = "c17_string.rs"


def H(name, file, **kw):
    h = Harness(name, **kw)
    h.group_file = file
    h.qual = ("vector::verif_c17v::" if file == VEC else "string::verif_c17s::") + name
    return h


def harnesses(tier):
    hs = []
    for t in ("u8", "u32", "u64", "pair"):
        hs.append(H("c17_layout_%s" % t, VEC, bounds="compute_inner_layout::<%s>(cap) for every cap <= 2^32" % t, symbolic=["capacity"],
                    min_covers=2, timeout=600, group="c17_layout"))
    hs.append(H("c17_growth", VEC, bounds="determine_capacity_for_growth(cur, req, elem) for cur, req <= 2^40, elem <= 4096",
                symbolic=["current capacity", "required capacity", "element size"], min_covers=3, timeout=600, group="c17_growth"))
    hs.append(H("c17_vec_twin_must_fail", VEC, bounds="vacuity twin", expect="fail", timeout=600, group="c17"))
    seqs = [("c17_push_3_from_cap4", "3 pushes into Vector<u32>::with_capacity(4)", 1),
            ("c17_push_5_from_cap4", "5 pushes into with_capacity(4): crosses the 4->8 growth (detach + move)", 1),
            ("c17_push_3_from_cap2", "3 pushes into with_capacity(2): grows 2->4", 1),
            ("c17_clone_then_push", "2 pushes, clone, push on the shared vector (copy-on-write), both dropped", 1),
            ("c17_into_iter_unshared_partial", "3 pushes, into_iter, 0..4 next() calls (symbolic), iterator dropped", 2),
            ("c17_into_iter_shared", "2 pushes, clone, into_iter on the shared vector exhausted, other owner checked", 1),
            ("c17_from_iter_exact", "from_iter over 3 symbolic values with an exact size hint", 1),
            ("c17_from_iter_regrow", "from_iter over an iterator reporting size hint 2 but yielding 3 symbolic values (regrow path)", 1),
            ("c17_owning_into_iter_partial", "Vector<Box<u32>>: 3 pushes, into_iter, 0..3 elements taken (symbolic), iterator dropped: every box freed exactly once", 2),
            ("c17_owning_push_grow", "Vector<Box<u32>>: 3 pushes into with_capacity(2) (detach moves the boxes), contents read, vector dropped", 1),
            ("c17_default_empty_readonly_ops", "Vector::default(): len/is_empty/as_slice/clone/drop on the static empty header", 1)]
    for name, b, cov in seqs:
        hs.append(H(name, VEC, bounds=b + "; element values symbolic; CBMC pointer/bounds/double-free/dealloc-layout checks on",
                    symbolic=["element values", "read index / number of next() calls where stated"], enumerated=["operation sequence"],
                    min_covers=cov, timeout=1800, mem_gb=24, group=name))
    # F4 witnesses (known finding): allocations smaller than size_of::<VectorInner<T>>() viewed through &VectorInner<T>
    for name, b, grp in (("c17_default_then_push", "push onto Vector::default() (the shared static 24-byte header)", "c17_f4_default_push"),
                         ("c17_push_3_from_cap1", "3 pushes into Vector<u32>::with_capacity(1) (28-byte allocation)", "c17_f4_cap1"),
                         ("c17_from_iter_underestimate", "from_iter behind filter (size hint 0: header-only 24-byte allocation)", "c17_f4_from_iter_hint0")):
        hs.append(H(name, VEC, bounds=b, symbolic=["values"], enumerated=["operation sequence"], min_covers=1, timeout=1800, mem_gb=24, group=grp))
    if tier != "quick":
        hs.append(H("c17_str_twin_must_fail", STR, bounds="vacuity twin", expect="fail", timeout=1800, mem_gb=24, group="c17"))
    # every String shorter than 7 bytes sits in a block smaller than VectorInner<u8> (known finding F4); longer strings
    # (7-8 bytes) ran out of memory (24 GB).  The short-string harnesses still assert the functional contract: any
    # additional failing assertion changes the finding key and is reported.
    for n in (() if tier == "quick" else (0, 1)):
        hs.append(H("c17_string_%d" % n, STR, bounds="String::from(&str) of %d symbolic ASCII bytes: len, as_str round trip, NUL terminator through resolvo_string_bytes, clone, drops" % n,
                    symbolic=["bytes"], enumerated=["length %d" % n], min_covers=1, timeout=1800, mem_gb=24, group="c17_f4_short_string"))
    for n in (0, 3):
        hs.append(H("c17_slice_%d" % n, STR, bounds="Slice::from_slice/as_slice/Copy/default for a u32 slice of length %d" % n, symbolic=["values"],
                    enumerated=["length %d" % n], min_covers=1, timeout=600, group="c17_slice"))
    return hs


def functions():
    v = "cpp/src/vector.rs"
    return [
        source_lines(v, r"impl<T> Drop for Vector<T>", r"^}"),
        source_lines(v, r"impl<T> Clone for Vector<T>", r"^}"),
        source_lines(v, r"fn detach\(&mut self", r"^}"),
        source_lines(v, r"impl<T> FromIterator<T> for Vector<T>", r"^}"),
        source_lines(v, r"unsafe fn drop_inner", r"^}"),
        source_lines(v, r"impl<T: Clone> IntoIterator for Vector<T>", r"^}"),
        source_lines(v, r"impl<T: Clone> Iterator for IntoIter<T>", r"^}"),
        source_lines(v, r"fn compute_inner_layout", r"^}"),
        source_lines(v, r"fn alloc_with_capacity", r"^}"),
        source_lines(v, r"fn determine_capacity_for_growth", r"^}"),
        source_lines("cpp/src/string.rs", r"impl From<&str> for String", r"^}"),
        source_lines("cpp/src/string.rs", r"pub extern \"C\" fn resolvo_string_bytes", r"^}"),
        source_lines("cpp/src/slice.rs", r"pub fn as_slice", r"^}"),
    ]


ASSUMPTIONS = [
    "cpp/src/vector.rs, string.rs, slice.rs of the scratch copy are compiled verbatim (#[path]) into a dependency-free crate; Kani 0.68 / CBMC 6.11 with pointer, bounds, dealloc-layout and double-free checks",
    "operation sequences (shapes) are enumerated per harness; element values, the read index and the number of next() calls are symbolic; instantiations Vector<u32>, Vector<u8> (through String), Slice<u32>",
    "the C++ halves of the containers, resolvo::solve through the C++ DependencyProvider and cpp/src/lib.rs are NOT decided (no C++ front end gets through <atomic>/<algorithm>; whole solver: DESIGN R1); leak freedom is not decided (Kani 0.68 offers no memory-leak check option)",
    "known language-level UB report F4 (push onto Vector::default(): &VectorInner<T> formed over the 24-byte static header) is isolated in its own harness and listed in known_findings.txt",
]
RULE = ("one evaluation = one CBMC property (Kani's memory-safety checks + harness assertions) decided SUCCESS in a SUCCESSFUL harness; "
        "non-trivial = all cover witnesses SATISFIED")


def prepare(sc):
    dst = os.path.join(sc.dir, "c17ext")
    shutil.copytree(os.path.join(VERIF, "native", "c17ext"), dst)
    files = {}
    for src, host, mod in ((VEC, "cpp/src/vector.rs", "verif_c17v"), (STR, "cpp/src/string.rs", "verif_c17s")):
        p = sc.add_harness_file(os.path.join(VERIF, "kani", src))
        sc.attach(host, p, mod)
        files[src] = p
    return dst, files


def run(tier, seed, only):
    t0 = time.time()
    sc = Scratch("c17")
    crate, files = prepare(sc)
    hs = [h for h in harnesses(tier) if (not only or re.search(only, h.name))]
    runner = KaniRunner(sc, crate, jobs=8, stubbing=False)
    results = runner.run_all(hs)
    out = Outcome()
    handle_results(PROP, results, runner, sc, crate, lambda h: files[h.group_file], out)
    rc = finish(PROP, tier, seed, out, t0, functions(), ASSUMPTIONS, [], sc.scalings, RULE)
    sc.cleanup()
    return rc


def replay(path):
    import json
    info = json.load(open(path))
    sc = Scratch("c17_replay")
    crate, files = prepare(sc)
    target = None
    for f in files.values():
        if re.search(r"fn %s\(" % re.escape(info["harness"]), open(f).read()):
            target = f
    if not target or not info.get("playback_test"):
        log("replay: nothing to replay natively for %s (solver trace only)" % info["harness"])
        return 2
    rc = 0
    for rel in (False, True):
        r = playback(sc, crate, target, info["playback_test"], release=rel)
        log("replay %s profile=%s reproduced=%s" % (info["harness"], "release" if rel else "dev", r["reproduced"]))
        if r["reproduced"]:
            rc = 1
    if rc:
        log("VIOLATION property=%s replay=%s" % (PROP, path))
    sc.cleanup()
    return rc
