"""Glue between the certificate engine (lib/cert.py, native/cert) and the per-property checks."""
import json
import os
import re
import subprocess
import sys
import time

from common import (REPLAY_DIR, VERIF, Inconclusive, Scratch, load_known_findings, log, native_env, run_capped,
                    write_evidence)

VT = "python3-vt"

FAMILIES_OF = {
    "C01": ["plain", "full", "wide", "hints", "hard", "deep", "lazycon", "tiny", "dense"],
    "C02": ["plain", "full", "wide", "hints", "hard", "deep", "lazycon", "tiny", "dense"],
    "C03": ["plain", "full", "wide", "hints", "hard", "deep", "lazycon", "tiny", "dense", "diamond"],
    "C04": ["plain", "full", "wide", "hints", "soft", "softx", "reuse", "deep", "lazycon", "dense", "diamond"],
    "C05": ["plain", "full", "hints", "soft", "softx", "softloop", "hard", "deep", "lazycon", "dense"],
    "C07": ["plain", "full", "wide", "hard", "deep", "lazycon", "dense"],
    "C08": ["plain", "full", "wide", "hard", "deep", "lazycon", "dense"],
    "C10": ["async", "asynchard"],
    "C13": ["reuse"],
    "C14": ["soft", "softx", "softloop"],
    "C15": ["wide", "wider", "full", "deep", "lazycon", "softloop", "dense"],
    "C16": ["snapshot"],
    "C20": ["cache"],
}
SIZES = {"quick": 1000, "thorough": 10000}

DUMP_ATTACH = ('\n#[cfg(verif_cert)]\n#[path = "%s"]\nmod verif_cert;\n')
VARMAP_ACCESSOR = ('\n#[cfg(verif_cert)]\nimpl VariableMap {\n    pub(crate) fn verif_next_id(&self) -> usize {\n'
                   '        self.next_id\n    }\n}\n')


def build_driver(sc):
    """Attaches the read-only dump accessors to the scratch copy (cfg(verif_cert)) and builds native/cert, dev+release."""
    import shutil
    dump = sc.add_harness_file(os.path.join(VERIF, "kani", "cert_dump.rs"))
    with open(sc.path("src/solver/mod.rs"), "a") as f:
        f.write(DUMP_ATTACH % dump)
    src = sc.read("src/solver/variable_map.rs")
    if not re.search(r"next_id: usize", src):
        raise Inconclusive("variable_map.rs no longer has a `next_id: usize` field: dump accessor does not apply")
    with open(sc.path("src/solver/variable_map.rs"), "a") as f:
        f.write(VARMAP_ACCESSOR)
    dst = os.path.join(sc.dir, "cert")
    shutil.copytree(os.path.join(VERIF, "native", "cert"), dst)
    shutil.copyfile(os.path.join(sc.repo, "Cargo.lock"), os.path.join(dst, "Cargo.lock"))
    env = native_env()
    env["RUSTFLAGS"] = "--cfg verif_cert -A unexpected_cfgs"
    os.makedirs(os.path.join(sc.dir, "logs"), exist_ok=True)
    bins = {}
    for prof in ("dev", "release"):
        cmd = ["cargo", "build", "--offline", "--quiet"] + (["--release"] if prof == "release" else [])
        rc, out, wall, to = run_capped(cmd, dst, env, 1200, None, os.path.join(sc.dir, "logs", "cert_%s.log" % prof))
        if rc != 0 or to:
            raise Inconclusive("building the certificate driver (%s) failed: %s" % (prof, out[-1500:]))
        bins[prof] = os.path.join(dst, "target", "debug" if prof == "dev" else "release", "cert")
    return bins


def _worker_cmd():
    return [VT, os.path.join(VERIF, "lib", "cert_worker.py")]


SHARDS = int(os.environ.get("VERIF_CERT_SHARDS", "8"))


def _merge(parts):
    out = dict(parts[0])
    for p in parts[1:]:
        for k in ("universes", "solves", "queries", "learnt_clauses", "graphs", "relevant", "hangs", "cvc5_cross_checked"):
            out[k] = out.get(k, 0) + p.get(k, 0)
        out["solver_time"] = round(out["solver_time"] + p["solver_time"], 2)
        for k in ("families", "verdicts", "by_kind"):
            d = dict(out[k])
            for a, b in p[k].items():
                d[a] = d.get(a, 0) + b
            out[k] = d
        out["samples"] = (out["samples"] + p["samples"])[:6]
        out["selftest"] = {k: out.get("selftest", {}).get(k, 0) + p.get("selftest", {}).get(k, 0) for k in ("ran", "passed")}
        out["violations"] = out["violations"] + p["violations"]
    out["violations"].sort(key=lambda v: (v["family"], v["universe"]["id"], v["profile"]))
    return out


def sweep(bins, prop, tier, seed, families=None, n=None, only_ids=None):
    """Runs lib/cert_worker.py (python3-vt: z3) in SHARDS parallel processes, each on every SHARDS-th universe of every
    family, and returns the merged JSON summary."""
    import concurrent.futures as cf
    base = {"prop": prop, "families": families or FAMILIES_OF[prop], "n": n or SIZES[tier], "seed": seed,
            "bins": bins, "only_ids": only_ids, "tier": tier}
    k = max(1, SHARDS)

    def one(i):
        req = dict(base, shard=[i, k])
        p = subprocess.run(_worker_cmd(), input=json.dumps(req), capture_output=True, text=True, timeout=8 * 3600)
        if p.returncode != 0:
            raise Inconclusive("certificate worker %d/%d failed (rc=%s): %s" % (i, k, p.returncode, p.stderr[-1500:]))
        return json.loads(p.stdout.strip().split("\n")[-1])
    with cf.ThreadPoolExecutor(max_workers=k) as ex:
        parts = list(ex.map(one, range(k)))
    return _merge(parts)


def finding_key(prop, what):
    w = re.sub(r"[0-9]+", "N", what)
    w = re.sub(r"\[[^\]]*\]|\{[^}]*\}", "", w)
    return "cert:" + re.sub(r"[^A-Za-z]+", "_", w).strip("_")[:70]


def process(prop, summary, out_violations, out_known, sc):
    """Turns the worker's violation list for `prop` into VIOLATION / KNOWN-FINDING lines. Returns #violations."""
    known, _ = load_known_findings()
    kk = {k["key"]: k for k in known if k["property"] == prop}
    nv = 0
    seen_keys = set()
    for v in summary["violations"]:
        if v["prop"] != prop:
            continue
        key = finding_key(prop, v["what"])
        if key in kk:
            if key not in seen_keys:
                log("KNOWN-FINDING: property=%s %s [%s]" % (prop, kk[key]["what"], key))
                out_known.append({"key": key, "what": kk[key]["what"]})
            seen_keys.add(key)
            continue
        if key in seen_keys:
            continue
        seen_keys.add(key)
        os.makedirs(os.path.join(REPLAY_DIR, prop), exist_ok=True)
        rp = os.path.join(REPLAY_DIR, prop, "cert_%s_u%s.json" % (v["family"], v["universe"]["id"]))
        with open(rp, "w") as f:
            json.dump({"property": prop, "engine": "cert", "key": key, "what": v["what"], "profile": v["profile"],
                       "family": v["family"], "universe": v["universe"], "problem_index": v["problem_index"]}, f, indent=1)
        log("VIOLATION property=%s replay=%s" % (prop, rp))
        log("  [%s build] %s" % (v["profile"], v["what"]))
        out_violations.append({"key": key, "what": v["what"], "replay": rp})
        nv += 1
    return nv


def coverage_of(summary):
    return {
        "programs": summary["universes"],
        "disagreements_checked": summary["queries"],
        "cert_solves": summary["solves"],
        "cert_verdicts": summary["verdicts"],
        "cert_queries_by_kind": summary["by_kind"],
        "cert_learnt_clauses_certified": summary["learnt_clauses"],
        "cert_conflict_graphs_checked": summary["graphs"],
        "cert_solver_time_s": summary["solver_time"],
        "cert_families": summary["families"],
        "cert_profiles": summary["profiles"],
        "cert_relevant_universes": summary["relevant"],
        "cert_exhaustive_families": (["tiny: ALL %d universes with 2 packages x 2 candidates, <= 1 requirement and <= 1 constrains entry per solvable on the other package, one root requirement" % summary["families"]["tiny"]]
                                     if summary["families"].get("tiny", 0) >= 196608 else []),
        "cert_queries_re_asked_to_cvc5": summary.get("cvc5_cross_checked", 0),
        "cert_vacuity_guard": "tampered certificates rejected by the oracle (the root's requirement clauses removed -> `complete` must fail; a bogus unit clause against a selected solvable added -> `sound` must fail): %s of %s" % (
            summary.get("selftest", {}).get("passed", 0), summary.get("selftest", {}).get("ran", 0)),
    }


CERT_ASSUMPTIONS = [
    "certificate engine: the real Solver::solve of the scratch copy (pinned 1.86 toolchain, REAL dependencies, dev and release) is run on every universe; read-only accessors (cfg(verif_cert), appended to the scratch copy only) dump the clause database through the solver's own visit_literals",
    "universes are ENUMERATED by a seeded generator (families: see cert_families); for each universe z3 decides the stated questions for ALL selections of the solvables and all values of the helper variables - the universes themselves are not symbolic",
    "Spec(U) is written from the text of C01: root requirements/constraints, requirements and constrains of every solvable, Unknown dependencies, provider exclusions, locks, one solvable per package; candidates = get_candidates list filtered by the version set",
    "z3 (python3-vt) is trusted; any `unknown` answer makes the check inconclusive; every 499th query is re-asked to cvc5 1.0 and a disagreement makes the check inconclusive",
]


def run_cert_only(prop, tier, seed, level_text_rule, functions_encoded, extra_assumptions=()):
    """A property decided by the certificate engine alone."""
    t0 = time.time()
    sc = Scratch(prop.lower() + "_cert")
    bins = build_driver(sc)
    summary = sweep(bins, prop, tier, seed)
    violations, known = [], []
    process(prop, summary, violations, known, sc)
    cov = coverage_of(summary)
    cov.update({
        "evaluations": summary["queries"],
        "distinct_nontrivial": summary["relevant"],
        "rule": level_text_rule,
        "samples": summary["samples"][:4],
        "functions_encoded": functions_encoded,
        "queries_discharged": summary["queries"],
        "solver_time_s": summary["solver_time"],
        "known_findings_seen": known,
        "exhaustive": False,
    })
    write_evidence(prop, tier, seed, cov, CERT_ASSUMPTIONS + list(extra_assumptions), time.time() - t0, len(violations),
                   level="translation_validation")
    sc.cleanup()
    if violations:
        return 1
    if summary["universes"] == 0 or summary["relevant"] < 2:
        log("INCONCLUSIVE property=%s the sweep did not exercise the property (relevant universes: %d)" % (prop, summary["relevant"]))
        return 2
    log("OK property=%s tier=%s universes=%d solves=%d z3_queries=%d relevant=%d solver_time=%.1fs wall=%.1fs" % (
        prop, tier, summary["universes"], summary["solves"], summary["queries"], summary["relevant"],
        summary["solver_time"], time.time() - t0))
    return 0


def cert_extra(prop, tier, seed):
    """For properties that also have Kani harnesses: returns the `extra(sc, out)` callback of run_incrate."""
    def extra(_sc_kani, out):
        sc = Scratch(prop.lower() + "_cert")
        try:
            bins = build_driver(sc)
            summary = sweep(bins, prop, tier, seed)
        except Inconclusive as e:
            out.inconclusive.append("certificate engine: %s" % e)
            sc.cleanup()
            return
        known = []
        process(prop, summary, out.violations, known, sc)
        out.known += known
        out.extra_coverage.update(coverage_of(summary))
        out.extra_coverage["cert_samples"] = summary["samples"][:3]
        out.evaluations += summary["queries"]
        out.discharged += summary["queries"]
        out.solver_time += summary["solver_time"]
        out.nontrivial += summary["relevant"]
        if summary["universes"] == 0 or summary["relevant"] < 2:
            out.inconclusive.append("certificate engine: the sweep did not exercise the property")
        sc.cleanup()
    return extra


def is_cert_replay(path):
    try:
        return json.load(open(path)).get("engine") == "cert"
    except (OSError, ValueError):
        return False


def replay_cert(prop, path):
    info = json.load(open(path))
    sc = Scratch(prop.lower() + "_cert_replay")
    bins = build_driver(sc)
    req = {"prop": prop, "bins": bins, "replay": info}
    p = subprocess.run(_worker_cmd(), input=json.dumps(req), capture_output=True, text=True, timeout=3600)
    sc.cleanup()
    if p.returncode != 0:
        log("replay: worker failed: %s" % p.stderr[-800:])
        return 2
    summary = json.loads(p.stdout.strip().split("\n")[-1])
    mine = [v for v in summary["violations"] if v["prop"] == prop]
    for v in mine:
        log("replay [%s build]: %s" % (v["profile"], v["what"]))
    if mine:
        log("VIOLATION property=%s replay=%s" % (prop, path))
        return 1
    log("replay: the recorded universe no longer violates %s" % prop)
    return 0
