"""C16 — partial: id-allocation kernel of SnapshotProvider (add_package_requirement / version_set)."""
import os

from common import Harness, VERIF, source_lines
import cert_prop
from kani_prop import MAPPING_SCALE, Attach, run_incrate, replay_incrate

PROP = "C16"
SRC = "c16_snapshot.rs"
HOST = "src/snapshot.rs"
FAMILY = {"empty": [], "0": [0], "012": [0, 1, 2], "3": [3], "05": [0, 5], "34": [3, 4], "1_9": [1, 9]}


def slice_id_expr():
    """Extracts verbatim the expression of `let id = ...;` inside add_package_requirement of /repo's current snapshot.rs."""
    import re
    from common import REPO, Inconclusive
    src = open(os.path.join(REPO, HOST)).read()
    m = re.search(r"pub fn add_package_requirement\(&mut self, name: NameId, matcher: &str\) -> VersionSetId \{(.*?)\n    \}\n", src, re.S)
    if not m:
        raise Inconclusive("add_package_requirement not found in %s" % HOST)
    body = m.group(1)
    ids = re.findall(r"let id = (.*?);", body, re.S)
    if len(ids) != 1 or not re.search(r"VersionSetId::from_usize\(id\)\s*$", body.strip()):
        raise Inconclusive("add_package_requirement no longer has the shape `let id = <expr>; ... VersionSetId::from_usize(id)`")
    if "additional_version_sets.push(" not in body:
        raise Inconclusive("add_package_requirement no longer pushes onto additional_version_sets")
    # the id must be computed before the push (the slice evaluates it before replaying the push)
    if body.index("let id =") > body.index("additional_version_sets.push("):
        raise Inconclusive("id is computed after the push: slice not applicable")
    line = src[:src.index("let id = " + ids[0])].count("\n") + 1
    return ids[0], line


def build(tier):
    text = open(os.path.join(VERIF, "kani", SRC)).read()
    expr, line = slice_id_expr()
    text += ("\nimpl<'s> SnapshotProvider<'s> {\n    /// verbatim slice of snapshot.rs:%d (`let id = ...;` in add_package_requirement)\n"
             "    fn verif_next_id(&self) -> usize {\n        %s\n    }\n}\n" % (line, expr))
    hs = []
    adds_range = (0, 1, 2) if tier == "quick" else (0, 1, 2, 3)
    fams = ["empty", "0", "012", "3", "05"] if tier == "quick" else list(FAMILY)
    for f in fams:
        ids = FAMILY[f]
        for adds in adds_range:
            name = "c16_%s_add%d" % (f, adds)
            text += ("\n#[kani::proof]\n#[kani::unwind(8)]\n#[kani::stub(ahash::RandomState::new, stub_random_state)]\n"
                     "fn %s() {\n    case::<%d, %d>([%s]);\n}\n" % (name, len(ids), adds, ", ".join(str(i) for i in ids)))
            h = Harness(name, bounds="captured version-set ids %s with symbolic recorded names; %d additions (id expression of add_package_requirement sliced verbatim, package per addition symbolic); every captured and added id resolved through version_set() after every addition" % (ids, adds),
                        symbolic=["package name recorded in each captured version set", "package of each addition"], enumerated=["captured id set %s" % ids, "%d additions" % adds],
                        min_covers=1, timeout=900, mem_gb=16, group="c16_%s" % ("hi" if ids else "empty"),
                        instance={"captured_ids": ids, "additions": adds})
            h.group_file = SRC
            hs.append(h)
    text += ("\n#[kani::proof]\n#[kani::unwind(8)]\n#[kani::stub(ahash::RandomState::new, stub_random_state)]\n"
             "fn c16_twin_must_fail() {\n    let (snap, _n) = snapshot_with([0, 1]);\n    let mut p = snap.provider();\n"
             "    let id = add_like(&mut p, PKG_A);\n    assert!(id == VersionSetId(0), \"vacuity witness\");\n"
             "    std::mem::forget(p);\n    std::mem::forget(snap);\n}\n")
    tw = Harness("c16_twin_must_fail", bounds="vacuity twin", expect="fail", timeout=600, group="c16")
    tw.group_file = SRC
    hs.insert(0, tw)
    return text, hs


def functions():
    return [
        source_lines(HOST, r"pub fn add_package_requirement", r"fn solvable\(&self") + " (id expression only, sliced)",
        source_lines(HOST, r"fn first_additional_version_set_idx", r"^    }"),
        source_lines(HOST, r"fn version_set\(&self, version_set: VersionSetId\)", r"^}"),
        source_lines(HOST, r"fn version_set_name\(&self", r"fn solvable_name"),
        source_lines("src/internal/mapping.rs", r"pub fn insert\(", r"pub fn unset\("),
    ]


ASSUMPTIONS = [
    "Kani 0.68 / CBMC 6.11 on the dev-profile MIR; stub ahash::RandomState::new (only empty HashSets are built: packages have no solvables, so no hash insertion happens)",
    "mapping.rs VALUES_PER_CHUNK scaled 128 -> 4 in the scratch copy",
    "add_package_requirement is NOT executed as a whole (collect::<HashSet<_>>() does not finish under CBMC): its id expression `let id = ...;` is sliced verbatim from the current source into a method of SnapshotProvider, and the push onto additional_version_sets is replayed by the harness; resolution uses the real version_set()/version_set_name(). If the function no longer has that shape the check is inconclusive",
    "captured id sets are enumerated from a family (empty, dense, single high id, sparse, chunk-straddling) and so is the number of additions; recorded names and the package of each addition are symbolic",
    "NOT decided: verdict equivalence with the live provider, capture (from_provider: SolverCache, HashSet, VecDeque), JSON text, candidate order (DESIGN R1); the per-package order loop's dependence on Mapping::iter is covered by C19",
]
RULE = ("one evaluation = one CBMC property decided SUCCESS in a SUCCESSFUL harness; instances = captured-id family x number of additions; non-trivial = cover witness SATISFIED")


def run(tier, seed, only):
    text, hs = build(tier)
    note = ["end-to-end part (certificate engine, family `snapshot`: no favored/locked, root requirements are single version sets): the universe is captured with DependencySnapshot::from_provider, solved through SnapshotProvider directly and after a serde_json round trip; z3 decides SAT(Spec(U)) for the LIVE data and the snapshot verdicts must agree, snapshot solutions must satisfy Spec(U) (z3), must equal the live solution (preference order preserved), and add_package_requirement on a captured package must return an id outside the captured ones and leave them resolvable"]
    fns = ["src/snapshot.rs: DependencySnapshot::from_provider_async, SnapshotProvider (Interner + DependencyProvider impls), Serialize/Deserialize of the snapshot (executed natively; verdicts and solutions decided against Spec(U) by z3)"]
    return run_incrate(PROP, tier, seed, only, [Attach(SRC, HOST, "verif_c16", text=text)], hs, functions() + fns,
                       ASSUMPTIONS + cert_prop.CERT_ASSUMPTIONS + note,
                       ["ahash::RandomState::new"], RULE + "; certificate engine: one evaluation = one z3 query, a universe is non-trivial for C16 when it was captured and solved through the snapshot",
                       scalings=[MAPPING_SCALE], jobs=8, extra=None if only else cert_prop.cert_extra(PROP, tier, seed))


def replay(path):
    if cert_prop.is_cert_replay(path):
        return cert_prop.replay_cert(PROP, path)
    text, _ = build("thorough")
    return replay_incrate(PROP, path, [Attach(SRC, HOST, "verif_c16", text=text)], scalings=[MAPPING_SCALE])
