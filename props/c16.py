"""C16 — partial: id-allocation kernel of SnapshotProvider (add_package_requirement / version_set)."""
import os

from common import Harness, VERIF, source_lines
from kani_prop import MAPPING_SCALE, Attach, run_incrate, replay_incrate

PROP = "C16"
SRC = "c16_snapshot.rs"
HOST = "src/snapshot.rs"
FAMILY = {"empty": [], "0": [0], "012": [0, 1, 2], "3": [3], "05": [0, 5], "34": [3, 4], "1_9": [1, 9]}


def build(tier):
    text = open(os.path.join(VERIF, "kani", SRC)).read()
    hs = []
    adds_range = (0, 1, 2) if tier == "quick" else (0, 1, 2, 3)
    fams = ["empty", "0", "012", "3", "05"] if tier == "quick" else list(FAMILY)
    for f in fams:
        ids = FAMILY[f]
        for adds in adds_range:
            name = "c16_%s_add%d" % (f, adds)
            text += ("\n#[kani::proof]\n#[kani::unwind(8)]\n#[kani::stub(ahash::RandomState::new, stub_random_state)]\n"
                     "fn %s() {\n    case::<%d, %d>([%s]);\n}\n" % (name, len(ids), adds, ", ".join(str(i) for i in ids)))
            h = Harness(name, bounds="captured version-set ids %s; %d add_package_requirement calls, package of each call symbolic (2 packages); every captured and added id resolved after every call" % (ids, adds),
                        symbolic=["package chosen per call"], enumerated=["captured id set %s" % ids, "%d additions" % adds],
                        min_covers=1, timeout=900, mem_gb=16, group="c16_%s" % ("hi" if ids else "empty"),
                        instance={"captured_ids": ids, "additions": adds})
            h.group_file = SRC
            hs.append(h)
    text += ("\n#[kani::proof]\n#[kani::unwind(8)]\n#[kani::stub(ahash::RandomState::new, stub_random_state)]\n"
             "fn c16_twin_must_fail() {\n    let snap = snapshot_with([0, 1]);\n    let mut p = snap.provider();\n"
             "    let id = p.add_package_requirement(PKG_A, \"*\");\n    assert!(id == VersionSetId(0), \"vacuity witness\");\n"
             "    std::mem::forget(p);\n    std::mem::forget(snap);\n}\n")
    tw = Harness("c16_twin_must_fail", bounds="vacuity twin", expect="fail", timeout=600, group="c16")
    tw.group_file = SRC
    hs.insert(0, tw)
    return text, hs


def functions():
    return [
        source_lines(HOST, r"pub fn add_package_requirement", r"fn solvable\(&self"),
        source_lines(HOST, r"fn version_set\(&self, version_set: VersionSetId\)", r"^}"),
        source_lines(HOST, r"fn version_set_name\(&self", r"fn solvable_name"),
        source_lines("src/internal/mapping.rs", r"pub fn insert\(", r"pub fn unset\("),
    ]


ASSUMPTIONS = [
    "Kani 0.68 / CBMC 6.11 on the dev-profile MIR; stub ahash::RandomState::new (only empty HashSets are built: packages have no solvables, so no hash insertion happens)",
    "mapping.rs VALUES_PER_CHUNK scaled 128 -> 4 in the scratch copy",
    "captured id sets are enumerated from a family (empty, dense, single high id, sparse, chunk-straddling) and the number of additions is enumerated (a symbolic count makes the additional vector's length symbolic); the package chosen per call is symbolic",
    "NOT decided: verdict equivalence with the live provider, capture (from_provider: SolverCache, HashSet, VecDeque), JSON text, candidate order (DESIGN R1); the per-package order loop's dependence on Mapping::iter is covered by C19",
]
RULE = ("one evaluation = one CBMC property decided SUCCESS in a SUCCESSFUL harness; instances = captured-id family x number of additions; non-trivial = cover witness SATISFIED")


def run(tier, seed, only):
    text, hs = build(tier)
    return run_incrate(PROP, tier, seed, only, [Attach(SRC, HOST, "verif_c16", text=text)], hs, functions(), ASSUMPTIONS,
                       ["ahash::RandomState::new"], RULE, scalings=[MAPPING_SCALE], jobs=8)


def replay(path):
    text, _ = build("thorough")
    return replay_incrate(PROP, path, [Attach(SRC, HOST, "verif_c16", text=text)], scalings=[MAPPING_SCALE])
