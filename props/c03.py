"""C03 - a conflict report is a truthful, self-contained proof of unsatisfiability.  Decided by the certificate engine only (DESIGN section 8.2)."""
from cert_prop import replay_cert, run_cert_only

PROP = "C03"
RULE = ('one evaluation = one z3 query; a universe is non-trivial for C03 when solve returned Unsolvable and Conflict::graph produced a graph: every edge is compared with the universe (requirement belongs to its source, targets are exactly its candidates or the unresolved node, constrains/lock/exclusion targets really are non-matching/locked out/excluded, forbid edges join one package), reachability from the root is checked, and z3 decides that root AND the facts shown in the graph (plus one-per-package for forbid-joined nodes) is UNSAT; learnt clauses are additionally certified against their recorded antecedents (learnt_why), which is what analyze_unsolvable expands')
FUNCTIONS = ['src/conflict.rs: Conflict::graph (executed natively through the public API, output is the object of the queries)', 'src/solver/mod.rs: analyze_unsolvable, analyze_unsolvable_clause, learnt_why bookkeeping in analyze (executed natively)']
EXTRA = ['graph simplification (ConflictGraph::simplify), graphviz and the user-friendly text are rendered (a panic there is reported) but their CONTENT is not compared with the graph', 'edge truthfulness is an evaluation against the universe; the refutation is the solver-decided part']


def run(tier, seed, only):
    return run_cert_only(PROP, tier, seed, RULE, FUNCTIONS, EXTRA)


def replay(path):
    return replay_cert(PROP, path)
