"""C07 - when the preferred candidates are mutually compatible, exactly they are selected.  Decided by the certificate engine only (DESIGN section 8.2)."""
from cert_prop import replay_cert, run_cert_only

PROP = "C07"
RULE = ("one evaluation = one z3 query; a universe is non-trivial for C07 when the antecedent holds: the closure of 'take the first-ranked candidate of every requirement' (favored first, then sort_candidates order, union members in listed order) is a selection that z3 confirms to satisfy Spec(U) and in which every requirement is met only by its own first choice; the real solve must then return exactly that selection")
FUNCTIONS = ['src/solver/mod.rs: decide, resolve_dependencies (executed natively)', 'src/solver/cache.rs: get_or_cache_sorted_candidates_for_version_set incl. favored rotation (executed natively)', 'src/solver/encoding.rs: requirement_to_sorted_candidates registration (executed natively)']
EXTRA = ["the antecedent is computed by a reference closure in the check and its consistency is decided by z3; the conclusion is a comparison with the real solver's output - universes are enumerated, so this is translation validation per universe, not a symbolic proof over all providers"]


def run(tier, seed, only):
    return run_cert_only(PROP, tier, seed, RULE, FUNCTIONS, EXTRA)


def replay(path):
    return replay_cert(PROP, path)
