"""C14 - soft requirements are best-effort and never harm the hard problem.  Decided by the certificate engine only (DESIGN section 8.2)."""
from cert_prop import replay_cert, run_cert_only

PROP = "C14"
RULE = ("one evaluation = one z3 query; a universe is non-trivial for C14 when a problem with 1-3 soft requirements returned a solution: z3 decides SAT(Spec(hard)) (SAT => solve must not fail), the returned set must satisfy Spec(U) for the hard part and for every accepted soft solvable (dependencies, constrains, Unknown rejected, one solvable per package; the directly named solvable is exempt only from its own package's lock/exclusion list), and when the hard problem is conflict-free (C07 antecedent) and the first soft solvable's preferred closure is consistent with it (z3), that solvable must be installed")
FUNCTIONS = ['src/solver/mod.rs: solve (soft loop), run_sat with starting_level > 0, run_sat_process_unsolvable', 'src/solver/encoding.rs: clauses added while variables are already assigned (executed natively)']
EXTRA = ["only the FIRST soft requirement's inclusion is checked against the preferred-closure criterion; later ones depend on earlier acceptances"]


def run(tier, seed, only):
    return run_cert_only(PROP, tier, seed, RULE, FUNCTIONS, EXTRA)


def replay(path):
    return replay_cert(PROP, path)
