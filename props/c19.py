"""C19 — Mapping behaves as a map (differential harness against an association-list model)."""
import itertools
import os

from common import Harness, VERIF, source_lines
from kani_prop import MAPPING_SCALE, Attach, run_incrate, replay_incrate

PROP = "C19"
HOST = "src/internal/mapping.rs"
A = [0, 1, 3, 4, 5, 9]
SRC = "c19_mapping.rs"


def instances(tier, seed):
    k = 2 if tier == "quick" else 3
    tuples = list(itertools.product(A, repeat=k))
    # VERIF_SEED only rotates the order in which instances are run; all of them are run
    if tuples:
        r = seed % len(tuples)
        tuples = tuples[r:] + tuples[:r]
    return k, tuples


def build(tier, seed):
    k, tuples = instances(tier, seed)
    text = open(os.path.join(VERIF, "kani", SRC)).read()
    hs = []
    tw = Harness("c19_twin_must_fail", bounds="vacuity twin", expect="fail", timeout=300, group="c19")
    tw.group_file = SRC
    hs.append(tw)
    for t in tuples:
        tag = "_".join(str(x) for x in t)
        arr = ", ".join(str(x) for x in t)
        for fam in ("a", "b"):
            name = "c19_%s_%s" % (fam, tag)
            text += "\n#[kani::proof]\n#[kani::unwind(16)]\nfn %s() {\n    family_%s::<%d>([%s]);\n}\n" % (name, fam, k, arr)
            if fam == "a":
                b = "pre-sized Mapping::with_capacity(12) (3 chunks of 4); %d steps on keys %s, each step insert(any u32) or unset (symbolic); get/len/is_empty after every step; iter driven by %d next() calls" % (k, list(t), k + 1)
                sym = ["operation kind per step", "inserted values"]
            else:
                b = "Mapping::default() grown by inserts on keys %s (values symbolic), then %d symbolic-kind steps on the same keys; iter checked after both phases" % (list(t), k)
                sym = ["inserted values", "operation kind per phase-2 step"]
            h = Harness(name, bounds=b, symbolic=sym, enumerated=["key tuple %s over alphabet %s" % (list(t), A)],
                        min_covers=2, timeout=600 if k == 2 else 1200, mem_gb=12, group="c19_" + fam,
                        instance={"family": fam, "keys": list(t)})
            h.group_file = SRC
            hs.append(h)
    return text, hs


SERDE_SRC = "c19_serde.rs"
SERDE_TUPLES_QUICK = [(5,), (0, 5), (3, 4), (9, 1), (0, 1), (4, 9)]


def build_serde(tier, seed):
    text = open(os.path.join(VERIF, "kani", SERDE_SRC)).read()
    hs = []
    tw = Harness("c19_serde_twin_must_fail", bounds="vacuity twin (serde)", expect="fail", timeout=900, group="c19_serde")
    tw.group_file = SERDE_SRC
    hs.append(tw)
    tuples = list(SERDE_TUPLES_QUICK)
    if tier == "thorough":
        tuples += [t for t in itertools.product(A, repeat=2) if t not in tuples] + [(0, 3, 9), (1, 4, 5), (9, 5, 0), (3, 4, 9)]
    for t in tuples:
        name = "c19_ser_" + "_".join(str(x) for x in t)
        text += "\n#[kani::proof]\n#[kani::unwind(16)]\nfn %s() {\n    ser_case::<%d>([%s]);\n}\n" % (name, len(t), ", ".join(str(x) for x in t))
        h = Harness(name, bounds="Mapping::default() with inserts on keys %s (symbolic values), each key then symbolically kept or unset; real Serialize impl into an in-memory sequence: position i holds get(i), every stored id is inside the sequence" % list(t),
                    symbolic=["values", "which keys are unset before serialising"], enumerated=["key tuple %s" % list(t)],
                    min_covers=2, timeout=1200, mem_gb=16, group="c19_ser", instance={"family": "serialize", "keys": list(t)})
        h.group_file = SERDE_SRC
        hs.append(h)
    for n in ((1, 2) if tier == "quick" else (1, 2, 3, 4)):
        name = "c19_de_%d" % n
        text += "\n#[kani::proof]\n#[kani::unwind(16)]\nfn %s() {\n    de_case::<%d>();\n}\n" % (name, n)
        h = Harness(name, bounds="a serialised sequence of %d optional u32 (presence and values symbolic: holes anywhere) through the real Deserialize impl: get(i) equals position i for every i, len counts the present entries" % n,
                    symbolic=["presence of each position", "values"], enumerated=["sequence length %d" % n],
                    min_covers=2, timeout=5400, mem_gb=16, group="c19_de", instance={"family": "deserialize", "len": n},
                    extra_args=["-Z", "unstable-options", "--cbmc-args", "--paths", "lifo"])
        h.group_file = SERDE_SRC
        hs.append(h)
    return text, hs


def functions():
    m = "src/internal/mapping.rs"
    return [
        source_lines(m, r"pub fn with_capacity", r"pub const fn chunk_and_offset"),
        source_lines(m, r"pub const fn chunk_and_offset", r"pub fn insert"),
        source_lines(m, r"pub fn insert\(", r"pub fn unset\("),
        source_lines(m, r"pub fn unset\(", r"pub fn get\("),
        source_lines(m, r"pub fn get\(", r"pub fn get_mut\("),
        source_lines(m, r"pub fn len\(", r"pub\(crate\) fn max"),
        source_lines(m, r"pub fn iter\(", r"^}"),
        source_lines(m, r"impl<'a, TId: ArenaId, TValue> Iterator for MappingIter", r"^}"),
        source_lines(m, r"impl<K: ArenaId, V: serde::Serialize> serde::Serialize for Mapping", r"^}"),
        source_lines(m, r"impl<'de, K: ArenaId, V: serde::Deserialize<'de>> serde::Deserialize<'de> for Mapping", r"^}"),
    ]


ASSUMPTIONS = [
    "Kani 0.68 / CBMC 6.11 / CaDiCaL on the dev-profile MIR of the real Mapping; release only through native replays",
    "source scaling in the scratch copy: mapping.rs VALUES_PER_CHUNK 128 -> 4 (the real constant does not finish, DESIGN P15); the claim is for the scaled constant",
    "keys are enumerated from the alphabet {0,1,3,4,5,9} (a symbolic key makes the chunk-vector length symbolic, DESIGN P6); values and operation kinds are symbolic",
    "instantiation Mapping<NameId, u32> only",
    "get_mut/get_unchecked/size_in_bytes/slots/capacity are not asserted on",
    "serde kernel: the crate is compiled with --features serde; the real Serialize/Deserialize impls of Mapping are driven by a minimal in-memory Serializer/Deserializer written in the harness (a bounded sequence of Option<u32>); JSON text and serde_json are outside the claim",
    "the mapping is leaked at the end of each harness (drop glue not part of the claim)",
]
RULE = ("one evaluation = one CBMC property decided SUCCESS in a SUCCESSFUL harness; harness instances are all K-tuples over the key alphabet x "
        "{pre-sized, growing}; an instance is non-trivial when both of its cover witnesses (operation-kind extremes) were SATISFIED")


def run(tier, seed, only):
    text, hs = build(tier, seed)
    stext, shs = build_serde(tier, seed)
    return run_incrate(PROP, tier, seed, only, [Attach(SRC, HOST, "verif_c19", text=text), Attach(SERDE_SRC, HOST, "verif_c19_serde", text=stext)],
                       hs + shs, functions(), ASSUMPTIONS, [], RULE, scalings=[MAPPING_SCALE], jobs=12,
                       package_args=["--features", "serde"])


def replay(path):
    text, _ = build("thorough", 0)
    t2, _ = build("quick", 0)
    # both tiers' instances (names are disjoint by arity)
    text = text + t2.split("// ---- generated instances follow")[1]
    stext, _ = build_serde("thorough", 0)
    return replay_incrate(PROP, path, [Attach(SRC, HOST, "verif_c19", text=text), Attach(SERDE_SRC, HOST, "verif_c19_serde", text=stext)],
                          scalings=[MAPPING_SCALE], package_args=["--features", "serde"])
