"""C02 — partial: restart-flag kernel (K5: requires/constrains constructors) and watch-list kernel (K6)."""
from common import Harness, source_lines
from kani_prop import MAPPING_SCALE, Attach, run_incrate, replay_incrate
from cert_prop import CERT_ASSUMPTIONS, cert_extra, is_cert_replay, replay_cert

PROP = "C02"
K5 = "k5_requires.rs"
K6 = "k6_watch_map.rs"
ATTACH = [Attach(K5, "src/solver/decision_tracker.rs", "verif_k5"),
          Attach(K6, "src/solver/watch_map.rs", "verif_k6")]


CURATED = [
    # (clause0, clause1, clause2): ordered watched pairs over literal ids 0..5 (chunk boundary between 3 and 4)
    [(0, 1), (0, 2), (0, 3)],      # all three share their first watch
    [(1, 0), (2, 0), (3, 0)],      # all three share their second watch
    [(0, 1), (2, 0), (0, 3)],      # shared literal at mixed watch indices
    [(0, 1), (1, 2), (2, 0)],      # ring
    [(0, 1), (0, 1), (0, 1)],      # identical pairs
    [(0, 1), (1, 0), (0, 1)],      # identical pairs, swapped order
    [(0, 1), (2, 3), (4, 5)],      # disjoint
    [(4, 5), (5, 4), (4, 0)],      # second chunk
    [(3, 4), (4, 3), (3, 5)],      # straddling the chunk boundary
    [(0, 5), (5, 1), (1, 0)],      # ring across chunks
    [(2, 4), (2, 4), (4, 2)],
    [(0, 1), (0, 2), (1, 2)],      # triangle
]


PATHS_SIZES = {"quick": (), "thorough": ()}   # measured: 1 clause, no answer in 10 min (path explosion through Mapping::insert growth paths)


def k6_instances(tier, seed):
    import random
    rnd = random.Random(1000 + seed)
    pairs = [(a, b) for a in range(6) for b in range(6) if a != b]
    n_random = 2 if tier == "quick" else 12
    cfgs = [list(c) for c in (CURATED[:4] if tier == "quick" else CURATED)]
    while len(cfgs) < (4 if tier == "quick" else len(CURATED)) + n_random:
        c = [rnd.choice(pairs) for _ in range(3)]
        if c not in cfgs:
            cfgs.append(c)
    if tier == "thorough":
        # two-clause configurations as well
        cfgs += [c[:2] for c in CURATED[:6]]
    return cfgs


def k6_text(tier, seed):
    """k6_watch_map.rs + the generated dispatch over the 30 ordered (literal, new watch) pairs + instances."""
    import os
    from common import VERIF
    text = open(os.path.join(VERIF, "kani", K6)).read()
    pairs = [(a, b) for a in range(6) for b in range(6) if a != b]
    assert len(pairs) == 30 and all(pairs[i][0] == i // 5 for i in range(30))
    t = [""]
    hs = []
    for cfg in k6_instances(tier, seed):
        tag = "_".join("%d%d" % p for p in cfg)
        arr = ", ".join("(%d, %d)" % p for p in cfg)
        name = "k6_start_watching_%s" % tag
        t += ["#[kani::proof]", "#[kani::unwind(8)]", "fn %s() {" % name,
              "    start_watching_case::<%d>([%s]);" % (len(cfg), arr), "}", ""]
        hs.append(H(name, K6, bounds="%d clauses watching the literal pairs %s; all 6 watch lists walked; list order checked for any literal" % (len(cfg), cfg),
                    symbolic=["literal whose list order is checked"], enumerated=["watched pairs %s" % cfg],
                    min_covers=1, timeout=900, mem_gb=12, group="k6_start", instance={"pairs": cfg, "op": "start_watching"}))
        for l in sorted(set(x for p in cfg for x in p)):
            for pos in range(sum(1 for p in cfg if l in p)):
                name = "k6_update_%s_l%d_s%d" % (tag, l, pos)
                t += ["#[kani::proof]", "#[kani::unwind(8)]", "fn %s() {" % name,
                      "    update_case::<%d>([%s], %d, %d);" % (len(cfg), arr, l, pos), "}", ""]
                hs.append(H(name, K6, bounds="%d clauses watching %s; cursor on literal %d advanced %d steps, update() to any of the 5 other literals that is not the clause's other watch (symbolic); every list re-walked" % (len(cfg), cfg, l, pos),
                            symbolic=["new watch"], enumerated=["watched pairs %s" % cfg, "literal %d" % l, "list position %d" % pos],
                            min_covers=1, timeout=900, mem_gb=12, group="k6_update",
                            instance={"pairs": cfg, "op": "update", "literal": l, "position": pos}))
    return text + "\n".join(t), hs


def H(name, file, **kw):
    h = Harness(name, **kw)
    h.group_file = file
    return h


def harnesses(tier, seed=0):
    hs = []
    hs.append(H("k5_requires_0", K5, bounds="parent variable 1 unassigned or true; no candidates; any requirement id",
                symbolic=["assignment of variables 0..4 (3^5 patterns minus parent=false)", "levels <= 1000", "requirement id"],
                enumerated=["0 candidates"], min_covers=1, timeout=600, group="k5"))
    for n in (1, 2, 3):
        hs.append(H("k5_requires_%d" % n, K5,
                    bounds="parent variable 1 (unassigned or true), candidates = variables %s, every assignment pattern of variables 0..4 with levels <= 1000" % [2, 3, 4][:n],
                    symbolic=["assignment pattern (unassigned/true/false per variable)", "levels", "requirement id"],
                    enumerated=["%d candidates" % n, "variable ids"], min_covers=3, timeout=900, group="k5"))
    hs.append(H("k5_constrains", K5, bounds="parent variable 1 (unassigned or true), forbidden variable 2 in any state",
                symbolic=["assignment pattern", "levels", "version set id"], enumerated=["variable ids"], min_covers=2,
                timeout=600, group="k5"))
    hs.append(H("k5_twin_must_fail", K5, bounds="vacuity twin of k5_requires_2", expect="fail", timeout=600, group="k5"))
    hs.append(H("k6_twin_must_fail", K6, bounds="vacuity twin of k6_start_watching", expect="fail", timeout=900, group="k6"))
    hs += k6_text(tier, seed)[1]
    for n in PATHS_SIZES.get(tier, ()):
        hs.append(H("k6_paths_update_%d" % n, K6,
                    bounds="%d clauses, each watching ANY ordered pair of distinct literals over the 6-literal alphabet; cursor on ANY literal advanced to ANY position < %d; update() to ANY other literal that is not the clause's other watch; all 6 lists walked before and after (CBMC path mode)" % (n, n),
                    symbolic=["watched pair of every clause", "literal", "position in its list", "new watch"],
                    enumerated=["%d clauses" % n, "pre-sized map (8 slots, chunk 4)"], min_covers=3 if n > 1 else 2, timeout=3600, mem_gb=16,
                    group="k6_paths", extra_args=["-Z", "unstable-options", "--cbmc-args", "--paths", "lifo"]))
    return hs


def attaches(tier="thorough", seed=0):
    return [ATTACH[0], Attach(K6, "src/solver/watch_map.rs", "verif_k6", text=k6_text(tier, seed)[0])]


def functions():
    c = "src/solver/clause.rs"
    return [
        source_lines(c, r"^    fn requires\(", r"^    fn constrains\("),
        source_lines(c, r"^    fn constrains\(", r"fn forbid_multiple"),
        source_lines(c, r"pub fn requires\(", r"pub fn lock\("),
        source_lines(c, r"fn from_kind_and_initial_watches", r"pub fn next_unwatched_literal"),
        source_lines("src/solver/decision_tracker.rs", r"pub\(crate\) fn assigned_value", r"pub\(crate\) fn map"),
    ]


ASSUMPTIONS = [
    "Kani 0.68 / CBMC 6.11 / CaDiCaL on the dev-profile MIR of the real constructors",
    "K5: the assignment map is filled directly (DecisionTracker.map.set/reset on a pre-sized map) without a matching trail: requires()/constrains() only read assigned_value()",
    "K5 precondition: the parent is not assigned false (asserted by the constructors themselves; the encoder only encodes undecided or installed solvables)",
    "K6: mapping.rs VALUES_PER_CHUNK scaled 128 -> 4; the watch map is pre-sized for the 6-literal alphabet; the clauses' watched pairs, the literal whose list is edited and the position in it are ENUMERATED per harness (curated sharing patterns + VERIF_SEED-rotated random ones); only the new watch (5 candidates) and the literal whose order is checked are symbolic - symbolic positions/pairs ran out of memory (12-24 GB). This kernel is reported as enumerated, not symbolic",
    "K6 precondition for update(): the new watch differs from the literal being replaced and from the clause's other watch (what next_unwatched_literal returns)",
    "candidate count 0..3 and variable ids are enumerated; assignment pattern, levels and ids of requirement/version set are symbolic",
    "NOT decided: conflict analysis (analyze: ahash::HashSet + SolverState), learnt-clause soundness, backjump level, level-1 => Unsolvable, verdict independence from ordering/hints (DESIGN R1)",
]
RULE = ("one evaluation = one CBMC property decided SUCCESS in a SUCCESSFUL harness; non-trivial = all cover witnesses SATISFIED "
        "(conflicting clause / later candidate watched / parent already installed ...)")


def run(tier, seed, only):
    note = ["end-to-end part (certificate engine): per universe z3 decides (a) whether ANY valid selection exists and compares with the verdict, (b) that every emitted problem clause is implied by Spec(U) (no valid solution is excluded), (c) that every learnt clause is implied by the clauses allocated before it; universes are enumerated, not symbolic; verdict independence from orderings is exercised only through the shuffled listing/rank orders of the generator"]
    fns = ["src/solver/mod.rs: solve/run_sat/propagate/learn_from_conflict/analyze/analyze_unsolvable (executed natively; verdict and learnt clauses certified by z3)",
           "src/solver/encoding.rs (executed natively; emitted clauses checked for soundness against Spec(U))"]
    return run_incrate(PROP, tier, seed, only, attaches(tier, seed), harnesses(tier, seed), functions() + fns,
                       ASSUMPTIONS + CERT_ASSUMPTIONS + note, [], RULE + "; certificate engine: one evaluation = one z3 query; a universe is non-trivial for C02 when the verdict was Unsolvable or at least one clause was learnt",
                       scalings=[MAPPING_SCALE], extra=None if only else cert_extra(PROP, tier, seed))


def replay(path):
    if is_cert_replay(path):
        return replay_cert(PROP, path)
    return replay_incrate(PROP, path, attaches(), scalings=[MAPPING_SCALE])
