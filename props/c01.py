"""C01 — partial: literal codec (K1), clause meaning vs. watches (K2), watch replacement (K3)."""
from common import Harness, source_lines
from kani_prop import ARENA_SCALE, Attach, Group, run_incrate, replay_incrate
from cert_prop import CERT_ASSUMPTIONS, cert_extra, is_cert_replay, replay_cert

PROP = "C01"
HOST = "src/solver/clause.rs"
ATTACH = [
    Attach("k1_literal.rs", HOST, "verif_k1"),
    Attach("k2_clause.rs", HOST, "verif_k2"),
    Attach("k3_next_unwatched.rs", HOST, "verif_k3"),
]


def H(name, file, **kw):
    h = Harness(name, **kw)
    h.group_file = file
    return h


def harnesses(tier):
    hs = []
    f = "k1_literal.rs"
    hs.append(H("k1_literal_codec", f, bounds="variable id < 2^30, both polarities, a second distinct id < 2^30",
                symbolic=["variable id", "polarity", "second variable id"], min_covers=2, timeout=300, group="k1"))
    for v in (0, 1, 5):
        hs.append(H("k1_eval_var%d" % v, f, bounds="variable id %d; value in {true,false}; level 1..=i32::MAX" % v,
                    symbolic=["value", "level", "literal polarity"], enumerated=["variable id in {0,1,5}"],
                    min_covers=2, timeout=300, group="k1"))
    hs.append(H("k1_twin_must_fail", f, bounds="vacuity twin of k1_literal_codec", expect="fail", timeout=300, group="k1"))
    f = "k2_clause.rs"
    hs.append(H("k2_constrains", f, bounds="two distinct variable ids < 2^20, any version set id, empty trail",
                symbolic=["parent id", "forbidden id", "version set id"], min_covers=2, timeout=600, group="k2"))
    hs.append(H("k2_forbid_multiple", f, bounds="candidate id < 2^20, helper literal of a different variable < 2^20 with either polarity",
                symbolic=["candidate id", "helper id", "helper polarity", "name id"], min_covers=2, timeout=600, group="k2"))
    hs.append(H("k2_lock", f, bounds="two distinct non-root ids < 2^20", symbolic=["locked id", "other id"],
                min_covers=1, timeout=600, group="k2"))
    hs.append(H("k2_excluded_and_root", f, bounds="variable id < 2^20, any reason id", symbolic=["variable id", "reason id"],
                min_covers=1, timeout=600, group="k2"))
    for n in (1, 2, 3, 4):
        hs.append(H("k2_learnt_%d" % n, f, bounds="learnt clause of %d literals, ids < 2^20, any polarities, first/last over distinct variables" % n,
                    symbolic=["literal ids", "polarities"], enumerated=["clause length %d" % n], min_covers=1,
                    timeout=600, group="k2"))
    hs.append(H("k2_twin_must_fail", f, bounds="vacuity twin of k2_constrains", expect="fail", timeout=600, group="k2"))
    f = "k3_next_unwatched.rs"
    hs.append(H("k3_learnt_2", f, bounds="learnt clause over variables {1,2}; any polarities, any assignment with levels <= 1000, either watch",
                symbolic=["polarities", "assignment (3^2 x levels)", "watch order", "watch index"], enumerated=["variable ids 1,2"],
                min_covers=1, timeout=600, group="k3"))
    hs.append(H("k3_learnt_3", f, bounds="learnt clause over variables {1,2,3}; any polarities, any assignment (unassigned/true@l/false@l, l<=1000), any two distinct watched positions, either watch index",
                symbolic=["polarities (2^3)", "assignment (3^3 x levels)", "watched positions", "watch index"],
                enumerated=["variable ids 1..3"], min_covers=4, timeout=900, group="k3"))
    hs.append(H("k3_binary_kinds_never_move", f, bounds="Constrains/ForbidMultiple/Lock over variables {1,2,3}, any assignment, either watch index",
                symbolic=["clause kind", "helper polarity", "assignment", "watch index"], enumerated=["variable ids"],
                min_covers=3, timeout=600, group="k3"))
    hs.append(H("k3_twin_must_fail", f, bounds="vacuity twin of k3_learnt_3", expect="fail", timeout=600, group="k3"))
    if tier == "thorough":
        hs.append(H("k3_learnt_4", f, bounds="learnt clause over variables {1,2,3,4}; any polarities, any assignment (levels <= 1000), any two distinct watched positions, either watch index",
                    symbolic=["polarities (2^4)", "assignment (3^4 x levels)", "watched positions", "watch index"],
                    enumerated=["variable ids 1..4"], min_covers=4, timeout=2400, mem_gb=24, group="k3"))
    return hs


SHIMS = ("ahash", "elsa", "indexmap", "futures", "event-listener", "bitvec", "tracing")
K7 = "k7_requires.rs"
ATTACH_K7 = [Attach(K7, HOST, "verif_k7")]


def harnesses_k7(tier):
    shapes = [("k7_requires_1", "1 candidate"), ("k7_requires_2_union", "2 candidates in 2 version sets (union key)"),
              ("k7_requires_3_union_2_1", "3 candidates grouped [2,1] (union key)"),
              ("k7_requires_3_union_with_empty_member", "3 candidates grouped [1,0,2] (union with an empty member)")]
    if tier == "thorough":
        shapes += [("k7_requires_2_one_set", "2 candidates in one version set"), ("k7_requires_3_one_set", "3 candidates in one version set"),
                   ("k7_requires_3_union_1_1_1", "3 candidates grouped [1,1,1]")]
    hs = []
    for name, what in shapes:
        hs.append(H(name, K7, bounds="Requires(parent=var 1, requirement) with %s = variables 2..; a second unrelated entry in requirement_to_sorted_candidates; visit_literals order and polarity; next_unwatched_literal for any assignment of variables 1..4 (unassigned / true@l / false@l, l <= 1000), any two distinct watched positions, either watch index" % what,
                    symbolic=["assignment (3^4 x levels)", "watched positions", "watch index"], enumerated=["candidate grouping: " + what],
                    min_covers=1, timeout=1500, mem_gb=20, group="k7"))
    hs.append(H("k7_twin_must_fail", K7, bounds="vacuity twin", expect="fail", timeout=900, group="k7"))
    return hs


def functions():
    c = "src/solver/clause.rs"
    return [
        source_lines(c, r"pub fn new\(variable: VariableId, negate: bool\)", r"^}"),
        source_lines(c, r"impl ArenaId for Literal", r"^}"),
        source_lines(c, r"pub fn negate\(&self\)", r"^impl VariableId"),
        source_lines(c, r"fn constrains\(", r"fn learnt\("),
        source_lines(c, r"pub fn try_fold_literals", r"pub fn display<"),
        source_lines(c, r"fn from_kind_and_initial_watches", r"pub fn next_unwatched_literal"),
        source_lines(c, r"pub fn next_unwatched_literal", r"^}"),
        source_lines("src/solver/decision_map.rs", r"impl DecisionAndLevel", r"^impl DecisionMap \{") ,
        source_lines("src/solver/decision_map.rs", r"pub fn reset", None) + " .. end (DecisionMap::reset/set/level/value)",
        source_lines("src/internal/arena.rs", r"pub fn alloc\(", r"pub fn iter\("),
    ]


ASSUMPTIONS = [
    "Kani 0.68 / CBMC 6.11 / CaDiCaL decide the compiled dev-profile MIR of the real functions; release builds are only covered by native replays",
    "resolvo is compiled with Kani's nightly and `-A dangerous_implicit_autorefs` (5 lint hits in arena.rs); no source change",
    "stub: ahash::RandomState::new -> RandomState::with_seeds(1,2,3,4) (only used to build empty FrozenMaps that are passed but never indexed)",
    "K3 precondition: the watch being moved evaluates to false (what propagate() guarantees); membership/non-falseness are asserted without it",
    "K7 (Requires clauses): built in a second scratch copy against the dependency shims (DESIGN 8.1: elsa::FrozenMap is an insert-only association list with elsa's insert/get/Index contract) - a populated requirement_to_sorted_candidates does not finish with the real elsa/hashbrown; candidate grouping enumerated, assignment / watches symbolic",
    "Encoder, propagate, run_sat, analyze are outside the Kani part (DESIGN 8.1, P27-P29); they are covered per universe by the certificate engine",
    "source scaling in the scratch copy: arena.rs CHUNK_SIZE 128 -> 4 (the learnt-clause arena's 128-slot chunk of Vec<Literal> makes every harness 10-50x slower; the code is parametric in the constant)",
    "containers are leaked (mem::forget) at the end of each harness: their drop glue is not part of the claim",
    "learnt clauses have distinct first/last variables (analyze() dedups through its `seen` set) - assumed in K2",
]
RULE = ("one evaluation = one CBMC property (assertion / overflow / bounds / pointer check) decided SUCCESS inside a harness whose verdict "
        "was SUCCESSFUL with no unwinding-assertion failure; a harness is non-trivial when every kani::cover! witness in it was SATISFIED")


CERT_FUNCTIONS = ["src/solver/encoding.rs (whole Encoder, executed natively; its emitted clauses are the object of the SMT queries)",
                  "src/solver/mod.rs: Solver::solve/run_sat/propagate/decide/analyze (executed natively; verdict, solution and learnt clauses certified by z3)"]
CERT_NOTE = ["end-to-end part (certificate engine): per universe z3 decides `solution |= Spec(U)` and `emitted clause database |= Spec(U) restricted to what was fetched` over all selections; universes are enumerated, not symbolic"]
CERT_RULE = ("; certificate engine: one evaluation = one z3 query answered; a universe is non-trivial for C01 when solve returned a solution "
             "(model + completeness queries were asked for it)")


def run(tier, seed, only):
    return run_incrate(PROP, tier, seed, only, ATTACH, harnesses(tier), functions() + CERT_FUNCTIONS,
                       ASSUMPTIONS + CERT_ASSUMPTIONS + CERT_NOTE, ["ahash::RandomState::new"], RULE + CERT_RULE,
                       scalings=[ARENA_SCALE], extra=None if only else cert_extra(PROP, tier, seed),
                       groups=[Group(ATTACH_K7, harnesses_k7(tier), scalings=[ARENA_SCALE], shims=SHIMS, jobs=6)])


def replay(path):
    if is_cert_replay(path):
        return replay_cert(PROP, path)
    import json
    if str(json.load(open(path)).get("harness", "")).startswith("k7_"):
        return replay_incrate(PROP, path, ATTACH_K7, scalings=[ARENA_SCALE], shims=SHIMS)
    return replay_incrate(PROP, path, ATTACH, scalings=[ARENA_SCALE])
