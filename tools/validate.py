#!/usr/bin/env python3
"""Validates MANIFEST.json and every evidence file against the schemas (run with python3-vt: needs jsonschema)."""
import glob, json, sys
import jsonschema
ok = True
m = json.load(open('/verif/MANIFEST.json'))
jsonschema.validate(m, json.load(open('/root/.vp/MANIFEST.schema.json')))
print("MANIFEST ok: %d checks, %d n/a" % (len(m['checks']), len(m.get('not_applicable', []))))
es = json.load(open('/root/.vp/EVIDENCE.schema.json'))
for f in sorted(glob.glob('/verif/evidence/*.json')):
    try:
        jsonschema.validate(json.load(open(f)), es); print("ok", f)
    except Exception as e:
        ok = False; print("INVALID", f, str(e)[:300])
ids = [json.loads(l)['id'] for l in open('/verif/properties.jsonl')]
claimed = [c['property_id'] for c in m['checks']]; na = [n['property_id'] for n in m.get('not_applicable', [])]
missing = [i for i in ids if i not in claimed and i not in na]
if missing: ok = False; print("properties neither claimed nor n/a:", missing)
sys.exit(0 if ok else 1)
