#!/bin/sh
# Runs every registered check of one tier sequentially and prints one line per check (exit code, seconds).
tier=${1:-quick}
cd "$(dirname "$0")/.."
for p in ${2:-C01 C02 C03 C04 C05 C07 C08 C10 C13 C14 C15 C16 C17 C18 C19 C20}; do
  t0=$(date +%s)
  ./check $p --tier $tier > /tmp/run_all_$p.log 2>&1
  rc=$?
  echo "$p exit=$rc $(( $(date +%s) - t0 ))s $(grep -a -c '^KNOWN-FINDING' /tmp/run_all_$p.log) known $(grep -a -c '^VIOLATION' /tmp/run_all_$p.log) viol"
done
