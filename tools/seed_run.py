#!/usr/bin/env python3
"""Runs checks against a seeded change WITHOUT touching /repo: a scratch worktree of /repo's HEAD gets the patch and the
checks are pointed at it through VERIF_REPO (evidence/replays are redirected so that committed evidence is not overwritten).
usage: seed_run.py <seed dir name under /verif/seeded> <tier> <PROP> [<PROP> ...]
Appends one JSON line per (seed, property) to /verif/seeded/results.jsonl."""
import json, os, re, shutil, subprocess, sys, time

seed, tier, props = sys.argv[1], sys.argv[2], sys.argv[3:]
wt = "/tmp/seedwt_%s" % seed
ev = "/tmp/seedev_%s" % seed
subprocess.run("git -C /repo worktree remove --force %s" % wt, shell=True, capture_output=True)
shutil.rmtree(wt, ignore_errors=True)
assert subprocess.run("git -C /repo worktree add -q --detach %s HEAD" % wt, shell=True).returncode == 0
try:
    assert subprocess.run("git apply /verif/seeded/%s/patch.diff" % seed, shell=True, cwd=wt).returncode == 0
    for p in props:
        env = dict(os.environ, VERIF_REPO=wt, VERIF_EVIDENCE_DIR=ev, VERIF_REPLAY_DIR=ev + "/replays")
        t0 = time.time()
        r = subprocess.run(["./check", p, "--tier", tier], cwd="/verif", env=env, capture_output=True, text=True)
        viol = sorted(set(re.findall(r"harness=(\S+) key=(\S+)", r.stdout)))
        lines = [l for l in r.stdout.split("\n") if l.startswith(("VIOLATION", "INCONCLUSIVE", "OK ", "KNOWN", "UB-REPORT"))]
        rec = {"seed": seed, "property": p, "tier": tier, "exit": r.returncode, "wall_s": round(time.time() - t0),
               "violating_harnesses": viol[:8], "lines": [l[:300] for l in lines[:12]]}
        with open("/verif/seeded/results.jsonl", "a") as f:
            f.write(json.dumps(rec) + "\n")
        print(json.dumps(rec)[:600])
finally:
    subprocess.run("git -C /repo worktree remove --force %s" % wt, shell=True, capture_output=True)
    shutil.rmtree(wt, ignore_errors=True)
    shutil.rmtree(ev, ignore_errors=True)
