#!/usr/bin/env python3
"""Regenerates /verif/MANIFEST.json from the table below (single source of truth for the interface)."""
import json, os

R1 = "the code this depends on sits on hash containers / FuturesUnordered, which do not finish under Kani/CBMC even with concrete contents (DESIGN 1, P7-P9, R1); a hand-written encoder would model hashbrown/elsa/indexmap/futures rather than execute the real code"

CHECKS = {
    "C01": dict(
        text="Bounded model checking (Kani/CBMC) of the real clause/literal/watch kernels that every solution rests on: literal codec for every variable id < 2^30, clause meaning vs. initial watches for every id < 2^20 and every kind except Requires, watch replacement on learnt clauses of 3 (quick) / 4 (thorough) literals for every polarity, assignment, level and watch choice. PARTIAL: end-to-end validity of returned solutions (Encoder, propagate, run_sat) is not decided.",
        note="Kani 0.68/CBMC 6.11/CaDiCaL on dev-profile MIR; stub ahash::RandomState::new; arena CHUNK_SIZE scaled 128->4 in the scratch copy; ids of the watched clause are concrete, polarities/assignments/levels symbolic; Requires clauses and everything on hash containers outside the claim.",
        technique="bounded model checking of the compiled Rust (Kani -> CBMC -> SAT), symbolic inputs, cover-witnessed, vacuity twins",
        ref="DESIGN.md 3/C01"),
    "C02": dict(
        text="Bounded model checking (Kani/CBMC) of two kernels the verdict rests on. K5: WatchedLiterals::requires/constrains - the constructors that decide whether a lazily added clause conflicts with the partial solution (=> restart) - for 0..3 candidates and EVERY assignment pattern/level of parent and candidates (symbolic). K6: watch-list surgery (start_watching, cursor, next, update) on 2-3 clauses over a 6-literal alphabet: no lost or double watch, lists terminate - clause pairs/literal/position enumerated, new watch symbolic. PARTIAL: conflict analysis, learning, backjumping, level-1 => Unsolvable and verdict independence are not decided.",
        note="Kani 0.68/CBMC 6.11; K5 fills the assignment map directly (constructors only read assigned_value); K6: VALUES_PER_CHUNK scaled 128->4, pre-sized map, mostly enumerated (reported as such); analyze()/propagate()/run_sat are outside (hash containers).",
        technique="bounded model checking of the compiled Rust (Kani -> CBMC -> SAT); symbolic assignments for K5, enumerated configurations with symbolic new watch for K6",
        ref="DESIGN.md 3/C02"),
    "C04": dict(
        text="Kani's automatic panic/assert/debug_assert/overflow/bounds/pointer checks on the clause constructors, the trail-undo kernel and the level encoding, with preconditions weakened to what the public API can establish (in particular constrains(p, f) WITHOUT p != f), for every id < 2^20 / every trail of 1-3 (quick) or 1-4 decisions. Each kernel counterexample is replayed natively (cargo kani playback) and, for the self-constrains case, through the public API (real Solver::solve + rendering, dev and release). PARTIAL: termination/panic-freedom of solve and of the renderer as a whole is not decided.",
        note="Kani 0.68/CBMC 6.11 dev-profile MIR; known finding F3 (solvable constraining itself) is listed in known_findings.txt and keyed by its own harness; solve()/Conflict::graph/rendering are only exercised by native witness runs, not decided.",
        technique="bounded model checking of the compiled Rust (Kani -> CBMC -> SAT) with Kani's built-in panic and memory checks; native replay of counterexamples",
        ref="DESIGN.md 3/C04"),
    "C05": dict(
        text="Bounded model checking (Kani/CBMC) of the mechanism that removes abandoned selections: DecisionTracker::undo_until/undo_last/next_unpropagated/try_add_decision/clear on trails of 1-3 (quick) / 1-4 (thorough) decisions with symbolic values, levels, reasons, propagated prefix and target level: exactly the prefix at or below the target survives, undone variables are unassigned with level 0, nothing undone is handed out for propagation again. PARTIAL: decide() and the support argument (every installed solvable is required by an installed one) are not decided.",
        note="Kani 0.68/CBMC 6.11; trail length and variable ids enumerated, everything else symbolic; undo targets >= bottom level (run_sat's guarantee).",
        technique="bounded model checking of the compiled Rust (Kani -> CBMC -> SAT), symbolic values/levels/targets on enumerated trail shapes",
        ref="DESIGN.md 3/C05"),
    "C15": dict(
        text="The real AtMostOnceTracker (src/solver/binary_encoding.rs, #[path]-included, nothing modelled) is executed for every candidate count n <= 130 (quick) / 1030 (thorough) in two discovery orders; z3 decides over ALL assignments of candidates and helper variables that the emitted CNF admits no two candidates together (Q1, all pairs at once) and admits every single candidate (Q2), and that re-adding a tracked variable emits nothing (Q3); cvc5 re-decides Q1 at every 2^k-1, 2^k, 2^k+1. Solver counterexamples (n,i,j) are replayed through the real Solver::solve. Kernel claim: the encoder's registration of candidates and clause use by propagation are outside.",
        note="z3 4.x (python3-vt) + cvc5 1.0; add()'s control flow depends only on the number of distinct variables, so one native run per n is its complete symbolic execution for that n; Q2 skipped for (n,i) whose clauses did not change (argument in evidence).",
        technique="SMT/SAT decision (z3, cvc5 cross-check) of the CNF emitted by the real encoding code, for all assignments, per candidate count up to the bound",
        engine="z3",
        ref="DESIGN.md 3/C15"),
    "C16": dict(
        text="Bounded model checking (Kani/CBMC) of the id-allocation kernel of SnapshotProvider: for captured version-set id sets from an enumerated family (empty, dense, single high id, sparse, chunk-straddling) and 0-2 (quick) / 0-3 (thorough) additions, with symbolic recorded names and symbolic package per addition: every added id is fresh and distinct, every captured id - including the highest-numbered - resolves to its captured entry before and after every addition, every added id resolves to the added entry. PARTIAL: verdict equivalence with the live provider, capture (from_provider), candidate order and the JSON round trip are not decided (see C19 for Mapping serde).",
        note="Kani 0.68/CBMC 6.11; add_package_requirement is not executed as a whole (its HashSet collect does not finish): its `let id = ...;` expression is sliced verbatim from the current source and the push is replayed by the harness; resolution uses the real version_set(); VALUES_PER_CHUNK scaled 128->4; stub ahash::RandomState::new.",
        technique="bounded model checking of the compiled Rust (Kani -> CBMC -> SAT) with a verbatim source slice for the id expression; symbolic names/packages, enumerated id sets",
        ref="DESIGN.md 3/C16"),
    "C17": dict(
        text="Bounded model checking (Kani/CBMC with its pointer, bounds, double-free and dealloc-layout checks) of the Rust halves of the containers shared with C++ (cpp/src/vector.rs, string.rs, slice.rs compiled verbatim): layout arithmetic for EVERY capacity <= 2^32 and T in {u8,u32,u64,(u32,u32)} equals the formula resolvo_vector.h uses; growth policy for all cur/req <= 2^40; operation sequences (push across growth, clone + copy-on-write, into_iter shared/unshared with early drop, from_iter exact/regrow, static empty vector, short Strings, Slices) with symbolic element values. PARTIAL: the C++ halves, resolvo::solve through the C++ provider and cpp/src/lib.rs are not decided; leak freedom is not decided.",
        note="Kani 0.68/CBMC 6.11; operation shapes enumerated, values symbolic; known finding F4 (reference to VectorInner<T> formed over blocks smaller than the struct: static empty header, capacity-1 vectors, size-hint-0 from_iter, Strings < 7 bytes) is isolated in its own harnesses and listed in known_findings.txt; Strings of 7+ bytes run out of memory.",
        technique="bounded model checking of the compiled Rust (Kani -> CBMC -> SAT) with CBMC memory-safety checks; fully symbolic layout/growth arithmetic",
        ref="DESIGN.md 3/C17"),
    "C18": dict(
        text="Bounded model checking (Kani/CBMC) of the unsafe containers under the pool: Arena (CHUNK_SIZE scaled to 4): K allocations (K up to 5 quick / 9 thorough, crossing chunk boundaries) give dense ids in order, a reference taken after the first allocation is still valid and unchanged after all later ones, resolving an id returns the allocated value, iter yields everything in order, an id >= len panics instead of reading out of bounds; SmallVec: every push/pop/clear sequence of length 3 (quick) / 4 (thorough) plus sequences past the inline capacity agree with a reference array. PARTIAL: 'equal values share ids' (Pool::intern_* over hash maps) is not decided.",
        note="Kani 0.68/CBMC 6.11; allocation counts, resolved ids and SmallVec operation kinds enumerated, values symbolic; reads of slots in chunks added after the chunk vector grew run out of memory and are outside the claim.",
        technique="bounded model checking of the compiled Rust (Kani -> CBMC -> SAT) with CBMC memory-safety checks on enumerated shapes with symbolic values",
        ref="DESIGN.md 3/C18"),
    "C20": dict(
        text="Bounded model checking of the favored-rotation block of SolverCache::get_or_cache_sorted_candidates_for_version_set, extracted verbatim from the current source by brace matching: for every list of up to 4 (quick) / 6 (thorough) pairwise distinct symbolic candidate ids and every favored choice (none, an id not in the list, the element at any symbolic position): the favored candidate ends up first, all others keep their relative order, otherwise the list is unchanged; never panics. Decided with CBMC's path-based symbolic execution. PARTIAL: partitioning by filter_candidates, sort order, idempotence and the availability query (async fns over FrozenMap/Event/BitVec) are not decided.",
        note="Kani 0.68/CBMC 6.11 with --cbmc-args --paths lifo (each path decided separately; all paths explored); the block is a verbatim slice spliced into a function over (candidates.favored, sorted_candidates); if it cannot be located the check is inconclusive.",
        technique="bounded model checking of a verbatim source slice compiled in-crate (Kani -> CBMC path-based symex -> SAT), fully symbolic ids and favored position",
        ref="DESIGN.md 3/C20"),
    "C19": dict(
        text="Bounded model checking (Kani/CBMC) of the real Mapping<NameId,u32> against an association-list model written in the harness: every K-tuple of keys over the alphabet {0,1,3,4,5,9} (K=2 quick, 3 thorough; chunk constant scaled to 4 so the alphabet spans three chunks) x {pre-sized, growing}; operation kinds (insert/unset) and values are symbolic; insert/unset return values, get, len, is_empty after every step and iter() (ascending, each stored pair once, then None) are asserted. Serde round trip: see level_note.",
        note="Kani 0.68/CBMC 6.11; VALUES_PER_CHUNK scaled 128->4 in the scratch copy (real constant does not finish); keys enumerated (symbolic keys do not finish), values/kinds symbolic; instantiation Mapping<NameId,u32>; public API only.",
        technique="bounded model checking of the compiled Rust (Kani -> CBMC -> SAT): differential harness vs. reference model, symbolic operation kinds and values, enumerated key tuples",
        ref="DESIGN.md 3/C19"),
}

NA = {
    "C03": "Conflict::graph/analyze_unsolvable read SolverState/SolverCache (FrozenMap, HashMap, HashSet) and build a petgraph: " + R1,
    "C06": "the subject is independence from hash seeds and addresses; the encoding would need symbolic execution of hashbrown with a symbolic seed, which does not finish even for one concrete insert (P7); running the solver twice in two processes is observation, not a solver question",
    "C07": "decide() and the sorted-candidate cache run over IndexMap/FrozenMap solver state: " + R1,
    "C08": "decide()/activity/backjumping over IndexMap/FrozenMap solver state: " + R1,
    "C09": "a property of the provider-call HISTORY (which get_candidates/get_dependencies calls happen, in which causal order, how often): there is no formula for a solver to decide - the call log of the certificate driver would make it testable, which is a different technique; symbolic execution of Encoder/SolverCache does not finish (DESIGN 8.1, P27-P30)",
    "C11": "a property of the set of requests outstanding whenever the solver blocks (a history/schedule property): the scheduled runtime of the C10 check observes it but there is nothing for a solver to decide, and symbolic execution of the Encoder under a symbolic schedule does not finish (DESIGN 8.1, P27-P29)",
    "C12": "a property of the call history relative to the first cancellation value (no further provider call, exactly that value returned): observation of a call log, nothing for a solver to decide; symbolic execution of propagate()/SolverCache with a symbolic cancellation point does not finish (DESIGN 8.1, P27-P30)",
    "C13": "Solver.state reset vs persistent SolverCache across solves: " + R1,
    "C14": "successive run_sat calls over SolverState: " + R1,
}
PENDING = []

CERT = (" PLUS the certificate engine (second engine, DESIGN 8.2): the real Solver::solve (dev and release builds, real dependencies) is run on every universe of an "
        "enumerated bounded family (1000 per family quick, 10000 thorough; families plain/full/wide/hints/hard/deep/lazycon/soft/softx/reuse/async/snapshot, see DESIGN 8.2) and z3 decides over ALL selections of the solvables: ")
CERT_NOTE = " Certificate engine: universes are enumerated by a seeded generator (not symbolic); Spec(U) is written from the text of C01; read-only dump accessors are attached to the scratch copy under cfg(verif_cert); z3 (python3-vt) trusted, `unknown` => inconclusive."
CHECKS["C01"]["text"] += " K7 (second scratch copy, built against the dependency shims of DESIGN 8.1): the Requires clause with a populated candidate cache - 1-3 candidates grouped into 1-3 version sets, single and union keys, an unrelated second entry - visit_literals yields exactly (not parent) or candidates in cached order, and next_unwatched_literal obeys the K3 contract for every assignment, watch pair and watch index."
CHECKS["C20"]["text"] += " Additionally (observation of real runs, not a solver query): on the universes of the certificate engine's `cache` family the public SolverCache query methods are called on the dev and release builds and compared with the universe (partition, sorted order with the favored candidate first, stable repeated answers without provider calls, availability = hinted or fetched)."
CHECKS["C04"]["text"] += " In 30% of the universes the provider starts asking for cancellation when the report of an Unsolvable result is built."
CHECKS["C18"]["text"] += " Pool interning (built against the dependency shims of DESIGN 8.1, so FrozenCopyMap's HashMap is an association list): for Pool<VS(u8), N(u8)> with symbolic values - equal names / (package, version set) pairs share an id, different ones get different dense ids, re-interning and lookup return the same id, a never-interned name is not found, resolving returns what was interned, a reference taken before later interning stays valid, solvable and union ids are dense and unique even for equal records, union members keep their order. Hashing itself (a wrong Hash/Eq pair) and intern_string are not exercised."
CHECKS["C18"]["note"] += " Pool harnesses: ahash/elsa/indexmap/futures/event-listener/bitvec/tracing replaced by /verif/shims in the scratch copy; whether two interned values are equal is enumerated per harness."
CHECKS["C01"]["text"] += CERT + "the returned solution satisfies Spec(U), and the clause database emitted by the real Encoder implies Spec(U) restricted to everything that was fetched (no requirement, constrains entry, lock, exclusion or one-per-package fact is missing)."
CHECKS["C01"]["note"] += CERT_NOTE
CHECKS["C01"]["technique"] += "; SMT (z3) validation over all selections of the clause database and solution produced by the real solver per enumerated universe"
CHECKS["C02"]["text"] += CERT + "SAT(Spec(U)) equals the verdict (both directions), every emitted problem clause is implied by Spec(U) (no valid solution is excluded), and every learnt clause is implied by the clauses allocated before it (derivation order)."
CHECKS["C02"]["note"] += CERT_NOTE
CHECKS["C02"]["technique"] += "; SMT (z3) decision of the verdict and of clause/learnt-clause entailment per enumerated universe"
CHECKS["C04"]["text"] += " Additionally (observation of real runs, not a solver query): the certificate engine's universes are solved and rendered by the dev and release builds; a panic or a run that does not come back within 10 s is a violation."
CHECKS["C05"]["text"] += " Additionally (evaluation of real output, not a solver query): every solution returned for the certificate engine's universes is checked for support - each selected solvable is reachable from the root or an accepted soft requirement through requirement edges whose chosen candidate is selected."
CHECKS["C15"]["text"] += CERT + "per package, the forbid clauses the real Encoder emitted (registration order and grouping as they happen in real solves, up to 18 candidates per package) admit every single registered candidate and no two together, and every pair of candidates revealed through requirements is excluded by the clause database."
CHECKS["C15"]["note"] += CERT_NOTE
CHECKS["C16"]["text"] = CHECKS["C16"]["text"].replace("PARTIAL: verdict equivalence with the live provider, capture (from_provider), candidate order and the JSON round trip are not decided (see C19 for Mapping serde).", "") + CERT.replace("families plain/full/wide/hints/hard/deep/lazycon/soft/reuse", "family snapshot: no favored/locked, single version sets as root requirements") + "the universe is captured with DependencySnapshot::from_provider and solved through SnapshotProvider directly and after a serde_json round trip: both verdicts equal SAT(Spec(U)) of the LIVE data, both solutions satisfy Spec(U) and equal the live solution (preference order preserved, including union member order), and add_package_requirement returns an id outside the captured ones and leaves them resolvable. PARTIAL: universes are enumerated; only the Kani kernel is symbolic."
CHECKS["C16"]["note"] += CERT_NOTE
CHECKS["C16"]["technique"] += "; SMT (z3) decision of snapshot verdict/solution against the live data per enumerated universe"
NEW = {
    "C03": ("For every universe of the enumerated families whose verdict is Unsolvable, the conflict graph returned by the real Conflict::graph is checked: every edge is compared with the universe (requirement belongs to its source and its targets are exactly its candidates, or the unresolved node; constrains/lock/exclusion targets really are non-matching/locked out/excluded; forbid edges join one package), every node is reachable from the root, and z3 decides that root AND the facts shown in the graph alone (plus one-per-package for forbid-joined nodes) is UNSAT. Every learnt clause is certified against its recorded antecedents (learnt_why), which is what the report expands. PARTIAL: universes are enumerated (not symbolic); the simplified graph, graphviz and the text are rendered but their content is not compared.",
            "SMT (z3) refutation of the facts shown in the real conflict graph + entailment of learnt clauses from their recorded antecedents, per enumerated universe"),
    "C07": ("For every universe in which the closure of 'first-ranked candidate of every requirement' (favored first, then sort_candidates order, union members in listed order) is a selection that z3 confirms to satisfy Spec(U) and in which each requirement is met only by its own first choice, the real solve must return exactly that selection. PARTIAL: universes are enumerated; the antecedent's consistency is decided by z3, the conclusion is a comparison with the real output.",
            "SMT (z3) decision of the antecedent (consistency of the preferred closure) + comparison with the real solver's output, per enumerated universe"),
    "C08": ("For every universe with single-package root requirements: if the returned solution lacks the first-ranked candidate of one of them, z3 decides the property's existential antecedent - SAT(Spec(U) AND the first-ranked candidates of ALL single-package root requirements) - and a SAT answer is a violation. PARTIAL: universes are enumerated (not symbolic).",
            "SMT (z3) decision of the existential antecedent over all selections, per enumerated universe"),
    "C13": ("Sequences of 2-4 different problems are solved on ONE solver instance: each call's verdict must equal z3's verdict for that problem alone, its solution must satisfy Spec(U), its clause database and learnt clauses are certified like a first call's, and the provider call log over the whole sequence must not repeat get_candidates(name) or get_dependencies(solvable). PARTIAL: universes and sequences are enumerated; sequences after Cancelled are not generated.",
            "SMT (z3) decision of each call's verdict/solution on a reused solver + call-log comparison, per enumerated universe"),
    "C14": ("Problems with 1-3 soft requirements: z3 decides SAT(Spec(hard)) (SAT => solve must succeed); the returned set must satisfy Spec(U) for the hard part and every accepted soft solvable (dependencies, constrains, Unknown rejected, one solvable per package; only the lock/exclusion list of the directly named solvable's own package is exempt); when the hard problem is conflict-free and the first soft solvable's preferred closure is consistent with it (z3), that solvable must be installed. PARTIAL: universes are enumerated; only the first soft requirement's inclusion is checked.",
            "SMT (z3) decision of hard-problem satisfiability, solution validity and soft-closure compatibility, per enumerated universe"),
}
NEW["C10"] = ("Every universe of the families async/asynchard is solved through an ASYNCHRONOUS provider whose get_candidates / get_dependencies futures are completed one at a time by a scheduler, under four completion orders (oldest first, newest first, two pseudo-random): each run must terminate (a pending solver with no outstanding request is reported as a deadlock), its verdict must equal z3's verdict on Spec(U) and the synchronous run's, its solution must satisfy Spec(U) (z3), and no candidates/dependencies request may be issued twice. PARTIAL: universes and completion orders are enumerated (not symbolic); C11 (concurrency of issuing) is not decided.",
              "SMT (z3) decision of verdict and solution validity for every enumerated (universe, completion order) pair of the real solver under a scheduled asynchronous runtime")
for k, (text, tech) in NEW.items():
    CHECKS[k] = dict(text=text, note="certificate engine only." + CERT_NOTE, technique=tech, engine="cert", category="translation_validation", ref="DESIGN.md 8.2/" + k)
    NA.pop(k, None)


def main():
    checks = []
    for pid in sorted(CHECKS):
        c = CHECKS[pid]
        checks.append({
            "property_id": pid,
            "quick_cmd": "./check %s --tier quick" % pid,
            "thorough_cmd": "./check %s --tier thorough" % pid,
            "evidence_file": "/verif/evidence/%s.json" % pid,
            "replay_cmd_template": "./check %s --replay {path}" % pid,
            "engine": c.get("engine", "kani"),
            "level_claimed": {"category": c.get("category", "model_checking"), "text": c["text"], "design_ref": c["ref"]},
            "level_note": c["note"],
            "technique": c["technique"],
        })
    na = [{"property_id": k, "reason": v} for k, v in sorted(NA.items())]
    for p in PENDING:
        if p not in CHECKS:
            na.append({"property_id": p, "reason": "check planned in DESIGN.md but not built yet in this commit; not claimed until it runs"})
    na.sort(key=lambda x: x["property_id"])
    m = {
        "version": 1,
        "setup_cmd": "./setup.sh",
        "hooks": {
            "guard": "kani / verif_cert",
            "enable": "none needed: harness modules (`#[cfg(kani)] #[path=..] mod ..;`) and the read-only dump accessors of the certificate engine (`#[cfg(verif_cert)]`, built with RUSTFLAGS=--cfg verif_cert) are appended to a scratch copy of /repo's working tree made by every check; /repo itself carries no hook commits",
            "baseline_off_cmd": "cd /repo && cargo test --workspace --no-fail-fast --offline",
            "source_commits": [],
            "add_only": True,
        },
        "engines": [
            {"name": "kani", "path": "/verif/lib/common.py", "serves_properties": sorted(k for k in CHECKS if CHECKS[k].get("engine", "kani") == "kani"),
             "kind_free_text": "cargo-kani 0.68 (CBMC 6.11 + CaDiCaL) on harnesses under /verif/kani attached to a scratch copy of /repo"},
            {"name": "cert", "path": "/verif/lib/cert.py", "serves_properties": ["C01", "C02", "C03", "C04", "C05", "C07", "C08", "C10", "C13", "C14", "C15", "C16", "C20"],
             "kind_free_text": "certificate engine: native/cert runs the real Solver::solve of the scratch copy on enumerated universes and dumps clause database, learnt clauses, conflict graph; lib/cert.py asks z3 (python3-vt) the entailment/satisfiability questions over all selections"},
            {"name": "z3", "path": "/verif/lib/c15_z3.py", "serves_properties": ["C15"],
             "kind_free_text": "z3 (python3-vt) + cvc5 on the CNF emitted by the real binary_encoding.rs executed natively from the scratch copy"},
        ],
        "checks": checks,
        "not_applicable": na,
        "notes": "All checks: exit 0 held within the stated bounds, 1 violation (replayed natively first), 2 inconclusive (timeout/OOM/tool error/vacuity) - never reported as a pass. Known findings: /verif/known_findings.txt (witness universes of listed certificate-engine findings and regression inputs of repaired ones: /verif/witnesses/<ID>/). Two engines: Kani/CBMC kernels of the real code (symbolic within stated bounds) and the certificate engine (z3 over all selections of what the real solver emitted, per universe of enumerated families - translation validation, never 'for all providers'); observations of real runs that need no solver (C04 panics/hangs, C05 support, C13 call log, C20 cache queries) are labelled as such and are never the deciding step of a claim. The repository carries genuine-defect repairs as `fix:` commits (F1-F3, F5-F11, F13); F4 and F12 are recorded findings.",
    }
    with open(os.path.join(os.path.dirname(os.path.dirname(os.path.abspath(__file__))), "MANIFEST.json"), "w") as f:
        json.dump(m, f, indent=1)
        f.write("\n")


if __name__ == "__main__":
    main()
