#!/usr/bin/env python3
"""Development tool: builds the certificate driver from VERIF_REPO (default /repo) in a scratch directory and runs a sweep.
usage: cert_sweep.py <PROP> <families,comma> <n> [seed]      (not registered in MANIFEST.json; writes no evidence)"""
import json
import os
import sys

HERE = os.path.dirname(os.path.dirname(os.path.abspath(__file__)))
sys.path.insert(0, os.path.join(HERE, "lib"))
sys.path.insert(0, os.path.join(HERE, "props"))
from common import Scratch  # noqa: E402
import cert_prop  # noqa: E402

prop, fams, n = sys.argv[1], sys.argv[2].split(","), int(sys.argv[3])
seed = int(sys.argv[4]) if len(sys.argv) > 4 else 0
sc = Scratch("sweep")
bins = cert_prop.build_driver(sc)
s = cert_prop.sweep(bins, prop, "quick", seed, families=fams, n=n)
v = s.pop("violations")
s.pop("samples")
print(json.dumps(s))
from common import load_known_findings  # noqa: E402
known = set((k["property"], k["key"]) for k in load_known_findings()[0])
v = [x for x in v if (x["prop"], cert_prop.finding_key(x["prop"], x["what"])) not in known]
seen = set()
for x in v:
    k = (x["prop"], cert_prop.finding_key(x["prop"], x["what"]))
    if k in seen:
        continue
    seen.add(k)
    print("VIOL", x["prop"], x["profile"], x["family"], x["universe"]["id"], x["what"][:300])
pairs = sorted(set((x["prop"], x["family"]) for x in v))
caught = sorted(set(p for p, f in pairs if f in cert_prop.FAMILIES_OF.get(p, [])))
print("PAIRS", json.dumps(pairs))
print("CAUGHT_BY_CHECKS", json.dumps(caught))
print("distinct violation keys:", len(seen), "total", len(v))
sc.cleanup()
