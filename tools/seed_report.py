#!/usr/bin/env python3
"""Summarises /verif/seeded/results.jsonl (last result per seed x property), updates each meta.json's `detected_by`,
and prints the markdown table used in DESIGN.md section 7.5."""
import glob, json, os
res = {}
for l in open('/verif/seeded/results.jsonl'):
    d = json.loads(l)
    res[(d['seed'], d['property'])] = d
seeds = sorted(os.path.basename(os.path.dirname(p)) for p in glob.glob('/verif/seeded/*/meta.json'))
print("| seeded change | files | breaks | checks run (quick) | result |")
print("|---|---|---|---|---|")
for s in seeds:
    mp = '/verif/seeded/%s/meta.json' % s
    m = json.load(open(mp))
    runs = sorted((p, d) for (sd, p), d in res.items() if sd == s)
    det = [p for p, d in runs if d['exit'] == 1]
    inc = [p for p, d in runs if d['exit'] == 2]
    harn = sorted(set(h[0] for p, d in runs for h in d['violating_harnesses']))
    if det:
        verdict = "**caught** by %s (%s)" % (", ".join(det), ", ".join(harn[:3]))
    elif inc:
        verdict = "inconclusive (%s)" % ", ".join(inc)
    elif runs:
        verdict = "missed"
    else:
        verdict = "not run"
    m['detected_by'] = {"checks_run": [p for p, _ in runs], "caught_by": det, "harnesses": harn[:6],
                        "exit_codes": {p: d['exit'] for p, d in runs}}
    json.dump(m, open(mp, 'w'), indent=1)
    print("| %s | %s | %s | %s | %s |" % (s, ", ".join(os.path.basename(f) for f in m['files_changed']), m['what_it_breaks'][:110].replace("|", "/"),
                                       ", ".join(p for p, _ in runs), verdict))
