#!/usr/bin/env python3
"""Summarises the runs of the checks against the seeded changes and prints the markdown table of DESIGN.md 8.6.
Sources: seeded/results.jsonl (registered checks run through tools/seed_run.py: Kani harness groups, last result per
seed x property) and seeded/cert_results.jsonl (certificate engine, quick size, all families, through
tools/seed_cert.py; `caught_by_checks` = properties whose own families contain a violating universe).
Also updates each meta.json's `detected_by`."""
import glob, json, os
res, cert, cert_thorough = {}, {}, {}
for l in open('/verif/seeded/results.jsonl'):
    d = json.loads(l)
    res[(d['seed'], d['property'])] = d
if os.path.exists('/verif/seeded/cert_results.jsonl'):
    for l in open('/verif/seeded/cert_results.jsonl'):
        d = json.loads(l)
        if 'error' not in d:
            if d.get('n', 1000) <= 1000:
                cert[d['seed']] = d
            elif d.get('caught_by_checks'):
                cert_thorough[d['seed']] = d
seeds = sorted(os.path.basename(os.path.dirname(p)) for p in glob.glob('/verif/seeded/*/meta.json'))
print("| change | file | breaks | Kani harness checks (run -> caught) | certificate engine, quick size (checks whose families catch it) |")
print("|---|---|---|---|---|")
n_kani = n_cert = n_any = 0
for s in seeds:
    mp = '/verif/seeded/%s/meta.json' % s
    m = json.load(open(mp))
    runs = sorted((p, d) for (sd, p), d in res.items() if sd == s)
    det = [p for p, d in runs if d['exit'] == 1]
    harn = sorted(set(h[0] for p, d in runs for h in d['violating_harnesses']))
    k = ("%s -> **%s** (%s)" % (",".join(p for p, _ in runs), ",".join(det), ", ".join(harn[:2]))) if det else (
        "%s -> none" % ",".join(p for p, _ in runs) if runs else "not run")
    c = cert.get(s)
    if c is None:
        cc = "not run (no solver code touched)" if not any(f.startswith(("src/solver", "src/conflict", "src/snapshot")) for f in m['files_changed']) else "not run"
    elif c.get('caught_by_checks'):
        cc = "**" + ", ".join(c['caught_by_checks']) + "**"
    elif s in cert_thorough:
        cc = "none at the quick size; at the thorough size: **" + ", ".join(cert_thorough[s]['caught_by_checks']) + "**"
    else:
        cc = "none"
    n_kani += bool(det)
    n_cert += bool(c and c.get('caught_by_checks'))
    n_any += bool(det or (c and c.get('caught_by_checks')))
    n_thorough_only = globals().get('n_thorough_only', 0) + bool(not det and not (c and c.get('caught_by_checks')) and s in cert_thorough)
    globals()['n_thorough_only'] = n_thorough_only
    m['detected_by'] = {"kani_checks_run": [p for p, _ in runs], "kani_caught_by": det, "harnesses": harn[:6],
                        "certificate_engine_caught_by": (c or {}).get('caught_by_checks'),
                        "certificate_engine_first_violations": (c or {}).get('first', [])[:2]}
    json.dump(m, open(mp, 'w'), indent=1)
    print("| %s | %s | %s | %s | %s |" % (s, ", ".join(os.path.basename(f) for f in m['files_changed']),
                                       m['what_it_breaks'][:100].replace("|", "/"), k, cc))
print()
print("%d changes; caught by a Kani harness check: %d; caught by the certificate engine (quick size): %d; caught by at least one at the quick size: %d; only at the thorough size: %d"
      % (len(seeds), n_kani, n_cert, n_any, globals().get('n_thorough_only', 0)))
