#!/usr/bin/env python3
"""Runs the certificate engine (all families) against seeded changes, each in its own scratch worktree of /repo's HEAD.
usage: seed_cert.py <n per family> <seed dir> [<seed dir> ...]     (development tool; writes seeded/cert_results.jsonl)"""
import json, os, shutil, subprocess, sys
import concurrent.futures as cf

HERE = os.path.dirname(os.path.dirname(os.path.abspath(__file__)))
n = sys.argv[1]
seeds = sys.argv[2:]


def one(seed):
    wt = "/tmp/seedwt_%s" % seed
    subprocess.run("git -C /repo worktree remove --force %s" % wt, shell=True, capture_output=True)
    shutil.rmtree(wt, ignore_errors=True)
    if subprocess.run("git -C /repo worktree add -q --detach %s HEAD" % wt, shell=True).returncode != 0:
        return {"seed": seed, "error": "worktree"}
    try:
        r = subprocess.run("git apply --3way /verif/seeded/%s/patch.diff" % seed, shell=True, cwd=wt, capture_output=True, text=True)
        if r.returncode != 0:
            return {"seed": seed, "error": "patch does not apply at HEAD: " + r.stderr[-200:]}
        env = dict(os.environ, VERIF_REPO=wt)
        fams = os.environ.get("SEED_FAMILIES", "plain,full,wide,wider,hints,hard,dense,deep,lazycon,soft,softx,softloop,reuse,snapshot,async,asynchard,cache,diamond")
        r = subprocess.run([sys.executable, os.path.join(HERE, "tools", "cert_sweep.py"), "ALL", fams, n,
                            os.environ.get("VERIF_SEED", "0")], env=env, capture_output=True, text=True)
        viol = [l for l in r.stdout.split("\n") if l.startswith("VIOL")]
        props = sorted(set(l.split()[1] for l in viol))
        caught = [l for l in r.stdout.split("\n") if l.startswith("CAUGHT_BY_CHECKS")]
        caught = json.loads(caught[0].split(" ", 1)[1]) if caught else None
        return {"seed": seed, "n": int(n), "exit": r.returncode, "props_flagged": props, "caught_by_checks": caught, "first": [v[:260] for v in viol[:4]],
                "err": r.stderr[-300:] if r.returncode else ""}
    finally:
        subprocess.run("git -C /repo worktree remove --force %s" % wt, shell=True, capture_output=True)
        shutil.rmtree(wt, ignore_errors=True)


with cf.ThreadPoolExecutor(max_workers=5) as ex:
    for rec in ex.map(one, seeds):
        with open(os.path.join(HERE, "seeded", "cert_results.jsonl"), "a") as f:
            f.write(json.dumps(rec) + "\n")
        print(json.dumps(rec)[:700], flush=True)
