#!/usr/bin/env python3
"""Confirms a seeded change produced by a sub-agent (in /tmp/wt_<P>/_out) in a scratch worktree of /repo:
  (1) applies cleanly and builds, (2) the 57 existing tests pass with it, (3) its demonstration fails with it
  and (4) passes without it.  On success stores it under /verif/seeded/<P>_m<N>/ (patch.diff, demo, meta.json).
usage: seed_verify.py <P> <N> "<what it breaks>" "<what it needs to manifest>" """
import json, os, re, shutil, subprocess, sys, time

P, N = sys.argv[1], sys.argv[2]
WHAT, NEEDS = sys.argv[3], sys.argv[4]
SRC = "/tmp/wt_%s/_out" % P
WT = "/tmp/wt_verify_%s_%s" % (P, N)
ENV = dict(os.environ, CARGO_NET_OFFLINE="true")


def sh(cmd, cwd=WT, timeout=1800):
    p = subprocess.run(cmd, cwd=cwd, shell=True, capture_output=True, text=True, timeout=timeout, env=ENV)
    return p.returncode, p.stdout + p.stderr


def suite():
    rc, out = sh("cargo test --workspace --no-fail-fast --offline 2>&1")
    passed = sum(int(x) for x in re.findall(r"test result: \w+\. (\d+) passed", out))
    failed = sum(int(x) for x in re.findall(r"test result: \w+\. \d+ passed; (\d+) failed", out))
    return rc, passed, failed, out


def main():
    subprocess.run("git -C /repo worktree remove --force %s" % WT, shell=True, capture_output=True)
    rc, out = sh("git -C /repo worktree add -q --detach %s HEAD" % WT, cwd="/")
    assert rc == 0, out
    ran = []
    try:
        patch = os.path.join(SRC, "mutation%s.diff" % N)
        demo_rs = os.path.join(SRC, "demo%s.rs" % N)
        demo_diff = os.path.join(SRC, "demo%s.diff" % N)
        # --- demonstration without the change ----------------------------------------------------
        if os.path.exists(demo_rs):
            shutil.copy(demo_rs, os.path.join(WT, "tests", "seed_demo.rs"))
            demo_cmd = "cargo test --offline --features serde --test seed_demo 2>&1"
            demo_kind = "integration test (tests/seed_demo.rs)"
        else:
            rc, out = sh("git apply %s" % demo_diff)
            assert rc == 0, "demo diff does not apply: " + out
            demo_cmd = "cargo test --workspace --no-fail-fast --offline 2>&1"
            demo_kind = "unit tests appended by demo diff"
        rc0, out0 = sh(demo_cmd)
        ran.append(demo_cmd + " (without the change)")
        ok_without = rc0 == 0 and "test result: ok" in out0
        # --- with the change ----------------------------------------------------------------------
        rc, out = sh("git apply %s" % patch)
        assert rc == 0, "patch does not apply: " + out
        rc1, out1 = sh(demo_cmd)
        ran.append(demo_cmd + " (with the change)")
        fails_with = rc1 != 0 and re.search(r"test result: FAILED|panicked", out1) is not None and "error: could not compile" not in out1
        # --- existing suite with the change, demo removed ----------------------------------------
        if os.path.exists(demo_rs):
            os.remove(os.path.join(WT, "tests", "seed_demo.rs"))
        else:
            sh("git apply -R %s" % demo_diff)
        rcs, passed, failed, outs = suite()
        ran.append("cargo test --workspace --no-fail-fast --offline (with the change)")
        suite_ok = rcs == 0 and passed == 57 and failed == 0
        res = {"demo_passes_without_change": ok_without, "demo_fails_with_change": fails_with,
               "existing_suite_with_change": {"passed": passed, "failed": failed, "ok": suite_ok}}
        print(json.dumps(res))
        if not (ok_without and fails_with and suite_ok):
            print("NOT CONFIRMED", P, N)
            print(out0[-600:] if not ok_without else "")
            print(out1[-600:] if not fails_with else "")
            print(outs[-600:] if not suite_ok else "")
            return 1
        dst = "/verif/seeded/%s_m%d" % (P, int(N) + int(os.environ.get("SEED_OFFSET", "0")))
        os.makedirs(dst, exist_ok=True)
        shutil.copy(patch, os.path.join(dst, "patch.diff"))
        if os.path.exists(demo_rs):
            shutil.copy(demo_rs, os.path.join(dst, "demo.rs"))
        else:
            shutil.copy(demo_diff, os.path.join(dst, "demo.diff"))
        files = re.findall(r"^\+\+\+ b/(\S+)", open(patch).read(), re.M)
        meta = {"breaks_property": P, "what_it_breaks": WHAT, "needs_to_manifest": NEEDS, "files_changed": files,
                "demonstration": demo_kind, "confirmed": res, "commands_run": ran,
                "confirmed_at_repo_head": subprocess.run("git -C /repo rev-parse --short HEAD", shell=True, capture_output=True, text=True).stdout.strip(),
                "detected_by": "see DESIGN.md section 7 (filled in after running the checks)"}
        json.dump(meta, open(os.path.join(dst, "meta.json"), "w"), indent=1)
        print("CONFIRMED ->", dst)
        return 0
    finally:
        subprocess.run("git -C /repo worktree remove --force %s" % WT, shell=True, capture_output=True)
        shutil.rmtree(WT, ignore_errors=True)


if __name__ == "__main__":
    sys.exit(main())
