#!/usr/bin/env python3-vt
"""C15 solver side: reads the clause-emission log of the real AtMostOnceTracker and decides, with z3 (and cvc5 on
boundary sizes), for every candidate count n up to the bound:
  Q1  CNF_n /\ AtLeast2(x_1..x_n)                      is UNSAT   (no two candidates together, all pairs at once)
  Q2  CNF_n /\ x_i /\ (/\_{k!=i} not x_k)              is SAT     (every single candidate selectable)
  Q3  re-adding a tracked variable emits nothing (the formula is unchanged)
Output: one JSON document on stdout."""
import json
import subprocess
import sys
import time

import z3


def boundary_sizes(nmax):
    s = set()
    k = 1
    while (1 << k) - 1 <= nmax:
        for d in (-1, 0, 1):
            v = (1 << k) + d
            if 1 <= v <= nmax:
                s.add(v)
        k += 1
    s.add(nmax)
    return sorted(s)


def smt2_q1(n_vars, helper_ids, clauses):
    """SMT-LIB2 text of Q1 for the cvc5 cross-check (AtLeast2 as: exists i<j both true, via sequential counter)."""
    out = ["(set-logic QF_UF)"]
    for v in n_vars:
        out.append("(declare-const x%d Bool)" % v)
    for h in helper_ids:
        out.append("(declare-const h%d Bool)" % h)
    for a, b, pos in clauses:
        out.append("(assert (or (not x%d) %s))" % (a, ("h%d" % b) if pos else ("(not h%d)" % b)))
    # sequential at-least-2: s_k = some x among the first k is true
    prev = None
    disj = []
    for idx, v in enumerate(n_vars):
        if prev is not None:
            disj.append("(and %s x%d)" % (prev, v))
        cur = "s%d" % idx
        out.append("(declare-const %s Bool)" % cur)
        out.append("(assert (= %s %s))" % (cur, ("x%d" % v) if prev is None else "(or %s x%d)" % (prev, v)))
        prev = cur
    out.append("(assert %s)" % ("(or " + " ".join(disj) + ")" if len(disj) > 1 else (disj[0] if disj else "false")))
    out.append("(check-sat)")
    return "\n".join(out) + "\n"


def main():
    log_path, nmax, full_q2_upto = sys.argv[1], int(sys.argv[2]), int(sys.argv[3])
    events = [json.loads(l) for l in open(log_path) if l.strip()]
    t0 = time.time()
    X, Hh = {}, {}

    def x(v):
        if v not in X:
            X[v] = z3.Bool("x%d" % v)
        return X[v]

    def h(v):
        if v not in Hh:
            Hh[v] = z3.Bool("h%d" % v)
        return Hh[v]

    s = z3.Solver()
    res = {"nmax": nmax, "q1": 0, "q2": 0, "q2_skipped_unchanged": 0, "q3": 0, "cvc5_q1": 0, "violations": [],
           "errors": [], "samples": [], "helpers_at_nmax": 0, "clauses_at_nmax": 0}
    order = []            # candidate ids in discovery order
    all_clauses = []
    boundaries = set(boundary_sizes(nmax))
    helpers = []
    for ev in events:
        n = ev["n"]
        if n > nmax:
            break
        if ev["dup"]:
            res["q3"] += 1
            if ev["clauses"] or ev["new_helpers"]:
                res["violations"].append({"q": "Q3", "n": n, "var": ev["var"], "emitted": ev["clauses"][:4]})
            continue
        order.append(ev["var"])
        touched = set()
        for a, b, pos in ev["clauses"]:
            s.add(z3.Or(z3.Not(x(a)), h(b) if pos else z3.Not(h(b))))
            all_clauses.append((a, b, pos))
            touched.add(a)
        helpers += ev["new_helpers"]
        xs = [x(v) for v in order]
        # ---- Q1 ------------------------------------------------------------------------------
        if n >= 2:
            s.push()
            s.add(z3.AtLeast(*xs, 2))
            r = s.check()
            res["q1"] += 1
            if r == z3.sat:
                m = s.model()
                both = [v for v in order if z3.is_true(m.eval(x(v), model_completion=True))]
                i, j = order.index(both[0]), order.index(both[1])
                res["violations"].append({"q": "Q1", "n": n, "i": i, "j": j, "vars": both[:2],
                                          "what": "two candidates can be selected together"})
            elif r != z3.unsat:
                res["errors"].append("Q1 n=%d: %s" % (n, r))
            s.pop()
        # ---- Q2 ------------------------------------------------------------------------------
        full = n <= full_q2_upto or n in boundaries
        for idx, v in enumerate(order):
            if not full and v not in touched and v != ev["var"]:
                # no clause mentioning x_v was added since the last time Q2(.,v) was asked, and clauses of the other
                # candidates are satisfied by their negative literals: the query is equivalent to the earlier one
                res["q2_skipped_unchanged"] += 1
                continue
            assumptions = [x(w) if w == v else z3.Not(x(w)) for w in order]
            r = s.check(*assumptions)
            res["q2"] += 1
            if r == z3.unsat:
                res["violations"].append({"q": "Q2", "n": n, "i": idx, "var": v,
                                          "what": "a single candidate cannot be selected"})
            elif r != z3.sat:
                res["errors"].append("Q2 n=%d i=%d: %s" % (n, idx, r))
        # ---- cvc5 cross-check of Q1 at boundary sizes -----------------------------------------
        if n in boundaries and n >= 2:
            txt = smt2_q1(order, helpers, all_clauses)
            try:
                p = subprocess.run(["cvc5", "--lang", "smt2"], input=txt, capture_output=True, text=True, timeout=120)
                ans = p.stdout.strip().split("\n")[-1] if p.stdout.strip() else ""
                if "(error" in p.stdout or p.returncode != 0 or ans not in ("sat", "unsat"):
                    res["errors"].append("cvc5 Q1 n=%d: rc=%s %s" % (n, p.returncode, (p.stdout + p.stderr)[:200]))
                else:
                    res["cvc5_q1"] += 1
                    z3_unsat = not any(vv["q"] == "Q1" and vv["n"] == n for vv in res["violations"])
                    if (ans == "unsat") != z3_unsat:
                        res["errors"].append("solver disagreement on Q1 n=%d: z3 %s, cvc5 %s" % (n, "unsat" if z3_unsat else "sat", ans))
            except subprocess.TimeoutExpired:
                res["errors"].append("cvc5 Q1 n=%d: timeout" % n)
        if n in (2, 3, 4, 5, 8, 9) and len(res["samples"]) < 6:
            res["samples"].append({"n": n, "helpers": len(helpers),
                                   "clauses": ["-x%d | %sh%d" % (a, "" if pos else "-", b - 1000000) for a, b, pos in all_clauses]})
        if len(res["violations"]) >= 5:
            break
    res["helpers_at_nmax"] = len(helpers)
    res["clauses_at_nmax"] = len(all_clauses)
    res["n_reached"] = len(order)
    res["solver_time_s"] = round(time.time() - t0, 2)
    res["boundary_sizes"] = sorted(boundaries)
    print(json.dumps(res))


if __name__ == "__main__":
    main()
