#!/usr/bin/env python3
"""Runs under python3-vt (z3).  stdin: one JSON request; stdout (last line): one JSON summary.  See props/cert_prop.py."""
import json
import os
import sys

sys.path.insert(0, os.path.dirname(os.path.abspath(__file__)))
import cert  # noqa: E402


def capped(violations, prop):
    """at most 40 violations per property (all of them matter for `prop`, the others are only reported by the dev tools)"""
    out, count = [], {}
    for v in violations:
        k = v["prop"]
        count[k] = count.get(k, 0) + 1
        if count[k] <= (200 if k == prop else 40):
            out.append(v)
    return out


def main():
    req = json.load(sys.stdin)
    prop = req["prop"]
    bins = req["bins"]
    st = cert.Stats()
    violations, samples = [], []
    relevant = set()
    fam_counts = {}
    tamper_pool = []
    n_hangs = [0]
    batches = []
    if "replay" in req:
        info = req["replay"]
        batches.append((info.get("family", "replay"), [info["universe"]]))
    else:
        uid = 0
        for fam in req["families"]:
            n = req["n"]
            if fam == "wide":
                n = max(20, n // 2)
            if fam == "wider":
                n = max(20, n // 4)
            if fam == "diamond":
                n = max(20, n // 10)
            if fam == "tiny" and req.get("tier") == "thorough":
                n = cert.TINY_TOTAL
            us = cert.generate(req["seed"], fam, n, uid)
            uid += n
            if req.get("only_ids"):
                us = [u for u in us if u["id"] in req["only_ids"]]
            if req.get("shard"):
                i, k = req["shard"]
                us = us[i::k]
            batches.append((fam, us))
    # pinned witness universes of recorded findings for this property (always run, so that a listed finding is shown on
    # every run and its disappearance after a repair is noticed)
    wdir = os.path.join(os.path.dirname(os.path.dirname(os.path.abspath(__file__))), "witnesses", prop)
    if "replay" not in req and os.path.isdir(wdir) and (not req.get("shard") or req["shard"][0] == 0):
        ws = []
        for fn in sorted(os.listdir(wdir)):
            if fn.endswith(".json"):
                ws.append(json.load(open(os.path.join(wdir, fn))))
        if ws:
            batches.append(("witness", ws))
    for fam, us in batches:
        fam_counts[fam] = fam_counts.get(fam, 0) + len(us)
        for prof in ("dev", "release"):
            if prof not in bins:
                continue
            outs, rc, err, hangs = cert.run_driver(bins[prof], us)
            for hu in hangs:
                n_hangs[0] += 1
                violations.append({"prop": "C04", "what": "solve() or the conflict rendering did not terminate within 10 s",
                                   "profile": prof, "family": fam, "universe": hu, "problem_index": 0})
            hung = set(hu["id"] for hu in hangs)
            us_ok = [u for u in us if u["id"] not in hung]
            if rc != 0:
                print(json.dumps({"error": "driver (%s) exited with %s: %s" % (prof, rc, err[-500:])}))
                sys.exit(3)
            for u in us_ok:
                o = outs.get(u["id"])
                if o is None:
                    print(json.dumps({"error": "driver (%s) produced no record for universe %s" % (prof, u["id"])}))
                    sys.exit(3)
                probs = u.get("problems") or [u["problem"]]
                all_calls = []
                for pi, (p, res) in enumerate(zip(probs, o["solves"])):
                    if res["result"] in ("ok", "unsolvable") and "dump" not in res and u.get("dump", True):
                        print(json.dumps({"error": "driver returned no clause database for universe %s" % u["id"]}))
                        sys.exit(3)
                    viol, tags = cert.check_solve(u, p, res, st, prop)
                    if (prof == "dev" and len(tamper_pool) < 3 and res["result"] == "ok" and not viol
                            and len(res.get("solution", [])) >= 2 and "dump" in res):
                        tamper_pool.append((u, p, res))
                    if pi >= 1:
                        tags.add("C13")
                        # C13: verdict of a later call on the same solver is what z3 says about that problem alone
                        for v in list(viol):
                            if v["prop"] in ("C01", "C02", "C04"):
                                viol.append({"prop": "C13", "what": "solve #%d on a reused solver: %s" % (pi + 1, v["what"])})
                    for c in res.get("calls", []):
                        if c[0] in (0, 1):
                            if c in all_calls:
                                viol.append({"prop": "C13", "what": "provider asked again for %s %d by solve #%d on the same solver" % (
                                    "candidates of package" if c[0] == 0 else "dependencies of solvable", c[1], pi + 1)})
                            all_calls.append(c)
                    if pi == 0 and u.get("async_policies"):
                        runs = o.get("async") or []
                        if any(r.get("max_in_flight", 0) >= 2 for r in runs):
                            tags.add("C10")
                        viol += cert.check_async(u, p, res, runs, st)
                    if pi == 0 and u.get("cache_probe"):
                        tags.add("C20")
                        viol += cert.check_cache(u, o.get("cache"))
                    if pi == 0 and u.get("snapshot"):
                        tags.add("C16")
                        viol += cert.check_snapshot(u, p, res, o.get("snapshot"), st)
                    if prop in tags:
                        relevant.add((fam, u["id"]))
                    for v in viol:
                        violations.append(dict(v, profile=prof, family=fam, universe=u, problem_index=pi))
                    if prof == "dev" and len(samples) < 6 and prop in tags:
                        samples.append({"family": fam, "universe": u, "verdict": res["result"],
                                        "solution": res.get("solution"),
                                        "clauses": len(res.get("dump", {}).get("clauses", [])),
                                        "learnt": sum(1 for c in res.get("dump", {}).get("clauses", []) if c["kind"] == "learnt")})
    # ---- vacuity guard: the oracle must notice a tampered certificate ------------------------------------------
    selftest = {"ran": 0, "passed": 0}
    if tamper_pool and "replay" not in req:
        import copy
        for (u, p, res) in tamper_pool[:3]:
            d = res["dump"]
            root_reqs = [c["id"] for c in d["clauses"] if c["kind"] == "requires" and c["meta"][0] == 0]
            sol_vars = [v[0] for v in d["vars"] if v[1] == 1 and v[2] in res["solution"]]
            if not root_reqs or not sol_vars:
                continue
            selftest["ran"] += 1
            st2 = cert.Stats()
            # (a) the root's requirement clauses go missing: the all-false selection then satisfies the clause database
            #     -> `complete` must report that a root requirement is not enforced
            r1 = copy.deepcopy(res)
            for c in r1["dump"]["clauses"]:
                if c["id"] in root_reqs:
                    c["lits"] = [[0, True], [0, False]]      # neutralised (a tautology), ids stay valid for learnt_why
            try:
                v1, _ = cert.check_solve(u, p, r1, st2, prop)
            except Exception:           # the guard must never be the reason a run fails: skip this sample
                selftest["ran"] -= 1
                continue
            # (b) a bogus unit clause forbids a solvable of the (valid) solution -> `sound` must report it
            r2 = copy.deepcopy(res)
            r2["dump"]["clauses"].append({"id": 10 ** 6, "kind": "excluded", "lits": [[sol_vars[0], False]], "meta": [0, False, 0], "watched": False})
            try:
                v2, _ = cert.check_solve(u, p, r2, st2, prop)
            except Exception:
                selftest["ran"] -= 1
                continue
            ok_a = any("does not enforce: root requires" in x["what"] for x in v1)
            ok_b = bool(p.get("soft")) or any("not implied by the problem" in x["what"] for x in v2)   # `sound` is not asked with soft requirements
            if ok_a and ok_b:
                selftest["passed"] += 1
        if selftest["ran"] and selftest["passed"] != selftest["ran"]:
            print(json.dumps({"error": "vacuity guard: a tampered clause database was NOT rejected by the oracle (%s)" % selftest}))
            sys.exit(3)
    out = {
        "universes": sum(fam_counts.values()), "selftest": selftest, "families": fam_counts, "profiles": [p for p in ("dev", "release") if p in bins],
        "solves": st.solves, "verdicts": st.verdicts, "queries": st.queries, "by_kind": st.by_kind,
        "learnt_clauses": st.learnt_clauses, "graphs": st.graphs, "solver_time": round(st.solver_time, 2),
        "relevant": len(relevant), "hangs": n_hangs[0], "cvc5_cross_checked": getattr(st, "cvc5_checked", 0), "samples": samples, "violations": capped(violations, prop),
    }
    print(json.dumps(out))


if __name__ == "__main__":
    main()
