"""Generic decision procedure for a property made of Kani harnesses (and optional extra engines)."""
import json
import os
import re
import time

from common import (EVIDENCE_DIR, REPLAY_DIR, VERIF, Inconclusive, KaniRunner, Scratch, load_known_findings, log,
                    playback, write_evidence)

UB_PAT = re.compile(r"dereference failure|pointer (NULL|invalid|outside)|deallocated dynamic object|dead object|"
                    r"memory leak|double free|free argument|invalid integer address|misaligned|"
                    r"Undefined Behavior|same object violation|pointer relation")


def slug(s):
    return re.sub(r"[^A-Za-z0-9]+", "_", s).strip("_")[:80]


class Outcome:
    def __init__(self):
        self.violations = []      # dicts: key, what, replay
        self.known = []           # dicts
        self.inconclusive = []    # strings
        self.discharged = 0
        self.evaluations = 0
        self.nontrivial = 0
        self.solver_time = 0.0
        self.harness_records = []
        self.extra_coverage = {}
        self.samples = []
        self.traces_validated = 0


def finding_key(h, parsed):
    """harness family + the SET of distinct failing descriptions: a different (or additional) failing assertion in
    the same harness yields a different key, so it is not covered by a known-findings entry for the old one."""
    descs = sorted(set(c["description"] for c in parsed["failed_checks"]))
    return "%s:%s" % (h.group or h.name, "+".join(slug(d)[:60] for d in descs)[:200])


def handle_results(prop, results, runner, scratch, crate_dir, harness_file_of, outcome, package_args=None,
                   replay_release=True):
    known, _fixed = load_known_findings()
    known_keys = {k["key"]: k for k in known if k["property"] == prop}
    replayed_keys = {}
    for r in results:
        h, p = r["harness"], r["parsed"]
        rec = {
            "harness": h.name, "bounds": h.bounds, "symbolic": h.symbolic, "enumerated": h.enumerated,
            "verdict": r["status"], "expect": h.expect, "checks_decided": p["n_success"], "checks_total": p["n_checks"],
            "covers": "%d/%d" % (p["covers_satisfied"], p["covers_total"]), "cbmc_time_s": p["verification_time_s"],
            "wall_s": r["wall_s"],
        }
        if h.instance is not None:
            rec["instance"] = h.instance
        outcome.harness_records.append(rec)
        if p["verification_time_s"]:
            outcome.solver_time += p["verification_time_s"]
        if r["status"] == "inconclusive":
            outcome.inconclusive.append("%s: %s" % (h.name, r["why"]))
            continue
        if h.expect == "fail":
            # vacuity twin: must be FAILED, and only by its own witness assertion
            if r["status"] == "fail" and any("vacuity witness" in c["description"] for c in p["failed_checks"]):
                rec["verdict"] = "twin-failed-as-required"
                outcome.evaluations += 1
            else:
                outcome.inconclusive.append("%s: vacuity twin did not fail as required (%s)" % (h.name, r["status"]))
            continue
        if r["status"] == "pass":
            outcome.discharged += p["n_success"]
            outcome.evaluations += p["n_success"]
            if p["covers_total"] > 0 and p["covers_satisfied"] == p["covers_total"]:
                outcome.nontrivial += 1
            continue
        # ---- FAILED: counterexample, native replay --------------------------------------
        key = finding_key(h, p)
        descs = "; ".join(sorted(set(c["description"] for c in p["failed_checks"])))[:400]
        ub_only = all(UB_PAT.search(c["description"]) for c in p["failed_checks"])
        if key in replayed_keys:
            # same failing assertion in the same harness family: already replayed once, do not pay for it again
            first = replayed_keys[key]
            rec["counterexample"] = {"key": key, "failed": descs, "same_finding_as": first["harness"]}
            if first["kind"] == "known":
                continue
            if first["kind"] == "violation":
                outcome.violations.append({"key": key, "what": descs, "replay": first["replay"], "harness": h.name})
            else:
                outcome.inconclusive.append("%s: same unreproduced counterexample as %s" % (h.name, first["harness"]))
            continue
        if key in known_keys:
            # a listed finding: report it as such; it was replayed when it was recorded
            replayed_keys[key] = {"harness": h.name, "replay": None, "kind": "known"}
            rec["counterexample"] = {"key": key, "failed": descs, "known_finding": True}
            outcome.known.append({"key": key, "what": known_keys[key]["what"]})
            log("KNOWN-FINDING: property=%s %s [%s]" % (prop, known_keys[key]["what"], key))
            continue
        test_text, cex_run = runner.counterexample(h)
        replay_info = {"property": prop, "harness": h.name, "bounds": h.bounds, "key": key,
                       "failed_checks": p["failed_checks"][:10], "playback_test": test_text}
        reproduced = False
        if test_text:
            hf = harness_file_of(h)
            pb_dev = playback(scratch, crate_dir, hf, test_text, release=False, package_args=package_args)
            replay_info["playback_dev"] = pb_dev
            reproduced = pb_dev["reproduced"]
            outcome.traces_validated += 1
            if replay_release:
                pb_rel = playback(scratch, crate_dir, hf, test_text, release=True, package_args=package_args)
                replay_info["playback_release"] = pb_rel
                reproduced = reproduced or pb_rel["reproduced"]
        os.makedirs(os.path.join(REPLAY_DIR, prop), exist_ok=True)
        rp = os.path.join(REPLAY_DIR, prop, h.name + ".json")
        with open(rp, "w") as f:
            json.dump(replay_info, f, indent=1)
        rec["counterexample"] = {"key": key, "failed": descs, "reproduced_natively": reproduced, "ub_class": ub_only}
        replayed_keys[key] = {"harness": h.name, "replay": rp, "kind": "inconclusive"}
        if key in known_keys:
            replayed_keys[key]["kind"] = "known"
            outcome.known.append({"key": key, "what": known_keys[key]["what"], "reproduced": reproduced})
            log("KNOWN-FINDING: property=%s %s [%s]" % (prop, known_keys[key]["what"], key))
            continue
        if reproduced or ub_only:
            replayed_keys[key]["kind"] = "violation"
        if reproduced:
            outcome.violations.append({"key": key, "what": descs, "replay": rp})
            log("VIOLATION property=%s replay=%s" % (prop, rp))
            log("  harness=%s key=%s failed: %s" % (h.name, key, descs))
        elif ub_only:
            # language-level UB: no native run can confirm it (DESIGN 2.1); reported separately and as a violation
            log("UB-REPORT: property=%s harness=%s %s" % (prop, h.name, descs))
            outcome.violations.append({"key": key, "what": "UB (solver trace only): " + descs, "replay": rp})
            log("VIOLATION property=%s replay=%s" % (prop, rp))
        else:
            outcome.inconclusive.append("%s: counterexample did not reproduce natively (%s) - encoding or stub suspect"
                                        % (h.name, descs))


def finish(prop, tier, seed, outcome, t0, functions_encoded, assumptions, stubs, scalings, rule, level_note_extra=None):
    harness_ok = [r for r in outcome.harness_records if r["verdict"] in ("pass", "twin-failed-as-required")]
    coverage = {
        "evaluations": outcome.evaluations,
        "distinct_nontrivial": outcome.nontrivial,
        "rule": rule,
        "samples": outcome.samples or [
            {k: r[k] for k in ("harness", "bounds", "symbolic", "enumerated") if k in r}
            for r in outcome.harness_records[:6]],
        "queries_discharged": outcome.discharged,
        "solver_time_s": round(outcome.solver_time, 1),
        "functions_encoded": functions_encoded,
        "harnesses": outcome.harness_records,
        "harnesses_total": len(outcome.harness_records),
        "harnesses_decided": len(harness_ok),
        "stubs": stubs,
        "source_scalings": scalings,
        "traces_validated_against_impl": outcome.traces_validated,
        "known_findings_seen": outcome.known,
        "inconclusive": outcome.inconclusive,
        "exhaustive": False,
    }
    coverage.update(outcome.extra_coverage)
    write_evidence(prop, tier, seed, coverage, assumptions, time.time() - t0, len(outcome.violations))
    if outcome.violations:
        for rp in sorted(set(v["replay"] for v in outcome.violations)):
            log("VIOLATION property=%s replay=%s" % (prop, rp))
        return 1
    if outcome.inconclusive:
        for s in outcome.inconclusive:
            log("INCONCLUSIVE property=%s %s" % (prop, s))
        return 2
    log("OK property=%s tier=%s harnesses=%d queries_discharged=%d solver_time=%.1fs wall=%.1fs" % (
        prop, tier, len(outcome.harness_records), outcome.discharged, outcome.solver_time, time.time() - t0))
    return 0
