"""Shared machinery for the solver-based checks (see DESIGN.md section 2).

Every check:
  1. copies /repo's *current working tree* to a fresh scratch directory (never /repo, never /verif),
  2. attaches harness modules (cfg(kani)) / applies the declared source scalings to the copy,
  3. runs `cargo kani` harness by harness (pool of workers, one target dir each),
  4. parses verdicts strictly (anything that is not a clean SUCCESSFUL/FAILED is inconclusive),
  5. replays counterexamples natively (`cargo kani playback`, dev and release) before reporting,
  6. writes /verif/evidence/<id>.json,
  7. removes the scratch directory.
Exit codes: 0 held, 1 violation (VIOLATION line printed), 2 inconclusive (never a pass).
"""
import atexit
import concurrent.futures as cf
import hashlib
import json
import os
import re
import resource
import shutil
import signal
import subprocess
import sys
import tempfile
import threading
import time

VERIF = os.path.dirname(os.path.dirname(os.path.abspath(__file__)))
REPO = os.environ.get("VERIF_REPO", "/repo")
KNOWN_FINDINGS = os.path.join(VERIF, "known_findings.txt")
EVIDENCE_DIR = os.environ.get("VERIF_EVIDENCE_DIR") or os.path.join(VERIF, "evidence")
REPLAY_DIR = os.environ.get("VERIF_REPLAY_DIR") or os.path.join(VERIF, "replays")
KANI_RUSTFLAGS = "-A dangerous_implicit_autorefs"
PINNED_TOOLCHAIN = "1.86.0"

_print_lock = threading.Lock()


def log(*a):
    with _print_lock:
        print(*a, flush=True)


def base_env():
    env = dict(os.environ)
    env["CARGO_NET_OFFLINE"] = "true"
    env.pop("RUSTC_WRAPPER", None)
    return env


def kani_env():
    env = base_env()
    env["RUSTFLAGS"] = KANI_RUSTFLAGS
    # cargo-kani selects its own pinned toolchain; make sure nothing overrides it
    env.pop("RUSTUP_TOOLCHAIN", None)
    return env


def native_env():
    env = base_env()
    env["RUSTUP_TOOLCHAIN"] = PINNED_TOOLCHAIN
    env.pop("RUSTFLAGS", None)
    return env


class Inconclusive(Exception):
    pass


# --------------------------------------------------------------------------------------
# scratch copy of the repository
# --------------------------------------------------------------------------------------
class Scratch:
    def __init__(self, tag):
        self.dir = tempfile.mkdtemp(prefix="rvf_%s_" % tag)
        self.repo = os.path.join(self.dir, "repo")
        self.keep = bool(os.environ.get("VERIF_KEEP_SCRATCH"))
        atexit.register(self.cleanup)
        r = subprocess.run(
            ["rsync", "-a", "--exclude", "/target", "--exclude", "/.git", "--exclude", "/cpp/target",
             REPO + "/", self.repo + "/"], capture_output=True, text=True)
        if r.returncode != 0:
            raise Inconclusive("rsync of /repo failed: " + r.stderr)
        self.vk = os.path.join(self.repo, "verif_kani")
        os.makedirs(self.vk, exist_ok=True)
        self.scalings = []
        self.attached = []

    def path(self, rel):
        return os.path.join(self.repo, rel)

    def read(self, rel):
        with open(self.path(rel)) as f:
            return f.read()

    def write(self, rel, text):
        p = self.path(rel)
        os.makedirs(os.path.dirname(p), exist_ok=True)
        with open(p, "w") as f:
            f.write(text)

    def scale(self, rel, pattern, repl, what):
        """Declared source scaling (DESIGN 2.1). The pattern must match exactly once."""
        src = self.read(rel)
        new, n = re.subn(pattern, repl, src)
        if n != 1:
            raise Inconclusive("scaling %r: pattern %r matched %d times in %s (expected 1)" % (what, pattern, n, rel))
        self.write(rel, new)
        self.scalings.append(what)

    SHIMS = ("ahash", "elsa", "indexmap", "futures", "event-listener", "bitvec", "tracing")

    def use_shims(self, which=SHIMS):
        """DESIGN 8.1: replaces library dependencies of the scratch copy by the association-list / minimal shims under
        /verif/shims and applies the two declared source substitutions that go with the ahash shim."""
        toml = self.read("Cargo.toml")
        for name in which:
            toml, n = re.subn(r"(?m)^%s = .*$" % re.escape(name), '%s = { path = "%s/shims/%s" }' % (name, VERIF, name), toml, count=1)
            if n != 1:
                raise Inconclusive("shim %s: dependency line not found in Cargo.toml" % name)
            self.scalings.append("dependency %s replaced by /verif/shims/%s (scratch copy only)" % (name, name))
        self.write("Cargo.toml", toml)
        if "tracing" in which:
            # the repository's integration tests use tracing-test, which needs the real tracing crate; they are not part of
            # any harness, but `cargo kani playback` (cargo test) would try to build them
            shutil.rmtree(self.path("tests"), ignore_errors=True)
            self.scalings.append("tests/ removed from the scratch copy (integration tests need the real tracing crate; only harness playback is built)")
        if "ahash" in which:
            self.scale("src/internal/frozen_copy_map.rs", r"use std::collections::HashMap;", "use ahash::StdHashMap as HashMap;",
                       "frozen_copy_map.rs: std::collections::HashMap -> ahash shim (scratch copy only)")
            self.scale("src/solver/variable_map.rs", r"use std::\{collections::hash_map::Entry, fmt::Display\};",
                       "use std::fmt::Display;\nuse ahash::hash_map::Entry;",
                       "variable_map.rs: std hash_map::Entry -> ahash shim Entry (scratch copy only)")

    def add_harness_file(self, src_abs_or_text, name=None, is_text=False):
        """Copies a harness source into the scratch copy (so playback tests can be appended)."""
        if is_text:
            dst = os.path.join(self.vk, name)
            with open(dst, "w") as f:
                f.write(src_abs_or_text)
        else:
            name = name or os.path.basename(src_abs_or_text)
            dst = os.path.join(self.vk, name)
            shutil.copyfile(src_abs_or_text, dst)
        return dst

    def attach(self, rel, harness_path, modname):
        """Appends `#[cfg(kani)] #[path = ...] mod <modname>;` to a source file of the copy."""
        with open(self.path(rel), "a") as f:
            f.write('\n#[cfg(kani)]\n#[path = "%s"]\nmod %s;\n' % (harness_path, modname))
        self.attached.append((rel, modname))

    def cleanup(self):
        if self.keep:
            log("scratch kept at", self.dir)
            return
        shutil.rmtree(self.dir, ignore_errors=True)


def source_lines(rel, start_pat, end_pat=None):
    """Returns 'rel:first-last' for the region of /repo's current file between two regexes."""
    try:
        with open(os.path.join(REPO, rel)) as f:
            lines = f.read().split("\n")
    except OSError:
        return rel + ":?"
    first = None
    for i, l in enumerate(lines):
        if first is None and re.search(start_pat, l):
            first = i + 1
            if end_pat is None:
                return "%s:%d" % (rel, first)
        elif first is not None and end_pat and re.search(end_pat, l):
            return "%s:%d-%d" % (rel, first, i + 1)
    return "%s:%s" % (rel, first if first else "?")


# --------------------------------------------------------------------------------------
# running a command under time + memory caps
# --------------------------------------------------------------------------------------
def run_capped(cmd, cwd, env, timeout_s, mem_gb=None, logfile=None):
    def pre():
        os.setsid()
        if mem_gb:
            lim = int(mem_gb * (1 << 30))
            resource.setrlimit(resource.RLIMIT_AS, (lim, lim))
    t0 = time.time()
    out_f = open(logfile, "w") if logfile else tempfile.TemporaryFile(mode="w+")
    p = subprocess.Popen(cmd, cwd=cwd, env=env, stdout=out_f, stderr=subprocess.STDOUT, preexec_fn=pre)
    timed_out = False
    try:
        p.wait(timeout=timeout_s)
    except subprocess.TimeoutExpired:
        timed_out = True
        try:
            os.killpg(p.pid, signal.SIGKILL)
        except ProcessLookupError:
            pass
        p.wait()
    finally:
        # make sure no cbmc child survives
        try:
            os.killpg(p.pid, signal.SIGKILL)
        except (ProcessLookupError, PermissionError):
            pass
    out_f.flush()
    if logfile:
        out_f.close()
        with open(logfile, errors="replace") as f:
            out = f.read()
    else:
        out_f.seek(0)
        out = out_f.read()
        out_f.close()
    return p.returncode, out, time.time() - t0, timed_out


# --------------------------------------------------------------------------------------
# Kani
# --------------------------------------------------------------------------------------
class Harness:
    def __init__(self, name, bounds, symbolic=None, enumerated=None, timeout=300, mem_gb=16,
                 expect="pass", min_covers=0, extra_args=None, group=None, functions=None, instance=None):
        self.name = name                  # harness function name (passed to --harness, --exact)
        self.bounds = bounds              # human-readable bound statement
        self.symbolic = symbolic or []    # dimensions decided by the solver
        self.enumerated = enumerated or []  # dimensions fixed per harness by the generator
        self.timeout = timeout
        self.mem_gb = mem_gb
        self.expect = expect              # "pass" | "fail" (vacuity twin: must come back FAILED)
        self.min_covers = min_covers      # number of kani::cover! witnesses that must be SATISFIED
        self.extra_args = extra_args or []
        self.group = group
        self.functions = functions or []
        self.instance = instance          # generator descriptor (for samples)


_RE_CHECK = re.compile(r"^Check (\d+): (.+)\n\t - Status: (\w+)\n\t - Description: \"(.*)\"\n\t - Location: (.*)$", re.M)


def parse_kani_output(out):
    r = {"verdict": None, "failed_checks": [], "n_checks": 0, "n_success": 0, "covers_total": 0,
         "covers_satisfied": 0, "unsat_covers": [], "verification_time_s": None, "unwind_failure": False,
         "errors": []}
    for m in _RE_CHECK.finditer(out):
        _, cname, status, desc, loc = m.groups()
        if ".cover." in cname or status in ("SATISFIED", "UNSATISFIABLE", "UNREACHABLE") and "cover" in cname:
            r["covers_total"] += 1
            if status == "SATISFIED":
                r["covers_satisfied"] += 1
            else:
                r["unsat_covers"].append(desc)
            continue
        r["n_checks"] += 1
        if status == "SUCCESS":
            r["n_success"] += 1
        elif status == "FAILURE":
            r["failed_checks"].append({"check": cname, "description": desc, "location": loc})
            if "unwinding assertion" in desc:
                r["unwind_failure"] = True
        elif status in ("UNDETERMINED", "UNREACHABLE"):
            if status == "UNDETERMINED":
                r["errors"].append("undetermined check " + cname)
        else:
            r["errors"].append("status %s for %s" % (status, cname))
    m = re.search(r"^VERIFICATION:- (\w+)", out, re.M)
    if m:
        r["verdict"] = m.group(1)
    m = re.search(r"Verification Time: ([0-9.]+)s", out)
    if m:
        r["verification_time_s"] = float(m.group(1))
    if re.search(r"Status: ERROR|CBMC failed|out of memory|std::bad_alloc|internal compiler error|error: could not compile|panicked at", out):
        # "panicked at" can only come from the tool chain here: harness code is never run natively by `cargo kani`
        r["errors"].append("tool error")
    m = re.search(r"Complete - (\d+) successfully verified harnesses, (\d+) failures, (\d+) total", out)
    r["summary"] = m.groups() if m else None
    return r


def classify(h, rc, out, timed_out):
    """Returns (status, parsed). status in pass | fail | inconclusive."""
    p = parse_kani_output(out)
    if timed_out:
        return "inconclusive", p, "timeout after %ds" % h.timeout
    if p["summary"] is None or p["summary"][2] != "1":
        tail = out.strip().split("\n")[-15:]
        return "inconclusive", p, "no single-harness summary (rc=%s): %s" % (rc, " | ".join(tail)[-300:])
    if p["verdict"] == "SUCCESSFUL" and getattr(h, "should_panic", False):
        # #[kani::should_panic]: Kani reports SUCCESSFUL only if a panic occurred; every failed check must be a
        # plain assertion/panic (not a pointer/bounds/memory check)
        bad = [c for c in p["failed_checks"] if ".assertion." not in c["check"]]
        if bad or not p["failed_checks"] or "tool error" in p["errors"]:
            return "inconclusive", p, "should_panic harness: unexpected failed checks %s" % [c["description"] for c in bad][:3]
        return "pass", p, ""
    if p["verdict"] == "SUCCESSFUL":
        if p["errors"]:
            return "inconclusive", p, "errors in output: %s" % p["errors"]
        if p["failed_checks"]:
            return "inconclusive", p, "SUCCESSFUL but failed checks listed"
        if p["n_checks"] == 0:
            return "inconclusive", p, "no checks reported"
        if p["covers_satisfied"] < h.min_covers or p["unsat_covers"]:
            return "inconclusive", p, "vacuity: cover witnesses %d/%d satisfied (need %d); unsatisfied: %s" % (
                p["covers_satisfied"], p["covers_total"], h.min_covers, p["unsat_covers"])
        return "pass", p, ""
    if p["verdict"] == "FAILED":
        if p["unwind_failure"]:
            return "inconclusive", p, "unwinding assertion failed: bound too small"
        real = [c for c in p["failed_checks"]]
        if not real:
            return "inconclusive", p, "FAILED without a failed check (tool error/OOM?)"
        if "tool error" in p["errors"]:
            return "inconclusive", p, "FAILED with tool error"
        return "fail", p, ""
    return "inconclusive", p, "no verdict"


class KaniRunner:
    """Runs harnesses of one crate directory with a pool of workers (one cargo target dir each)."""

    def __init__(self, scratch, crate_dir, jobs=8, package_args=None, stubbing=True):
        self.scratch = scratch
        self.crate_dir = crate_dir
        self.jobs = jobs
        self.package_args = package_args or []
        self.stubbing = stubbing
        self.logs = os.path.join(scratch.dir, "logs")
        os.makedirs(self.logs, exist_ok=True)
        self.warm = None
        self.results = {}

    def _cmd(self, h, target, playback_print=False):
        cmd = ["cargo", "kani"] + self.package_args
        if self.stubbing:
            cmd += ["-Z", "stubbing"]
        cmd += ["--harness", getattr(h, "qual", None) or h.name, "--exact", "--target-dir", target]
        if playback_print:
            cmd += ["-Z", "concrete-playback", "--concrete-playback=print"]
        cmd += h.extra_args
        return cmd

    def _run_one(self, h, target, playback_print=False):
        logf = os.path.join(self.logs, "%s%s.log" % (h.name, ".cex" if playback_print else ""))
        # the counterexample run makes kani-driver parse CBMC's full JSON trace: give it room
        mem = max(h.mem_gb or 0, 40) if playback_print else h.mem_gb
        rc, out, wall, to = run_capped(self._cmd(h, target, playback_print), self.crate_dir, kani_env(),
                                       h.timeout * (2 if playback_print else 1), mem, logf)
        status, parsed, why = classify(h, rc, out, to)
        return {"harness": h, "status": status, "parsed": parsed, "why": why, "wall_s": round(wall, 1),
                "log": logf, "out": out}

    def run_all(self, harnesses):
        if not harnesses:
            return []
        t0dir = os.path.join(self.scratch.dir, "t0")
        results = []
        # warm-up: first harness builds the dependencies
        first = harnesses[0]
        log("[kani] warm-up + %s" % first.name)
        res = self._run_one(first, t0dir)
        self._report(res)
        results.append(res)
        rest = harnesses[1:]
        if not rest:
            return results
        n = max(1, min(self.jobs, len(rest)))
        targets = [t0dir]
        for i in range(1, n):
            d = os.path.join(self.scratch.dir, "t%d" % i)
            subprocess.run(["cp", "-a", t0dir, d], check=False)
            targets.append(d)
        pool_targets = list(targets)
        tl = threading.Lock()

        def work(h):
            with tl:
                t = pool_targets.pop()
            try:
                r = self._run_one(h, t)
            finally:
                with tl:
                    pool_targets.append(t)
            self._report(r)
            return r

        with cf.ThreadPoolExecutor(max_workers=n) as ex:
            results += list(ex.map(work, rest))
        self.targets = targets
        return results

    def _report(self, r):
        h = r["harness"]
        p = r["parsed"]
        log("[kani] %-44s %-12s expect=%-4s checks=%d covers=%d/%d cbmc=%ss wall=%ss %s" % (
            h.name, r["status"], h.expect, p["n_checks"], p["covers_satisfied"], p["covers_total"],
            p["verification_time_s"], r["wall_s"], r["why"]))

    # ---- counterexample -> native replay ------------------------------------------------
    def counterexample(self, h):
        """Re-runs a failing harness with concrete playback and returns the generated unit test text."""
        t0dir = os.path.join(self.scratch.dir, "t0")
        r = self._run_one(h, t0dir, playback_print=True)
        # Kani prints one playback test per failed check AND per satisfied cover: take one for a failed check
        blocks = re.findall(r"```\n(.*?)```", r["out"], re.S)
        failing = [b for b in blocks if not re.search(r"Check for `cover`", b)]
        return (failing[0] if failing else None), r


def playback(scratch, crate_dir, harness_file, test_text, release, package_args=None, timeout=900):
    """Appends the generated test to the harness file copy and runs it natively (real code, concrete values)."""
    mname = re.search(r"fn (kani_concrete_playback_\w+)\(", test_text).group(1)
    with open(harness_file) as f:
        cur = f.read()
    if mname not in cur:
        with open(harness_file, "a") as f:
            f.write("\n" + test_text + "\n")
    cmd = ["cargo", "kani", "playback", "-Z", "concrete-playback"] + (package_args or [])
    if release:
        cmd += ["--release"]
    cmd += ["--", mname]
    rc, out, wall, to = run_capped(cmd, crate_dir, kani_env(), timeout, None,
                                   os.path.join(scratch.dir, "logs", "playback_%s_%s.log" % (mname[-12:], "rel" if release else "dev")))
    reproduced = (not to) and (re.search(r"test result: FAILED\. 0 passed; 1 failed", out) is not None
                               or ("test exited abnormally" in out and "running 1 test" in out))
    if "Not enough det vals found" in out or "concrete_playback.rs" in out.split("panicked at")[-1][:200]:
        # the playback machinery itself failed (no complete concrete assignment): not a reproduction
        reproduced = False
    ran = re.search(r"test result: (ok|FAILED)\. (\d+) passed; (\d+) failed", out)
    passed = (not to) and ran is not None and ran.group(1) == "ok" and ran.group(2) == "1"
    panic = re.search(r"panicked at (.*?):\n(.*)", out)
    return {"reproduced": reproduced, "passed": passed, "timed_out": to, "wall_s": round(wall, 1),
            "panic": (panic.group(1) + ": " + panic.group(2)) if panic else None, "tail": out[-1500:]}


# --------------------------------------------------------------------------------------
# known findings
# --------------------------------------------------------------------------------------
def load_known_findings():
    known, fixed = [], []
    if os.path.exists(KNOWN_FINDINGS):
        for line in open(KNOWN_FINDINGS):
            line = line.strip()
            if not line or line.startswith("#"):
                continue
            m = re.match(r"known: property=(\S+) key=(\S+) (.*)", line)
            if m:
                known.append({"property": m.group(1), "key": m.group(2), "what": m.group(3)})
                continue
            m = re.match(r"fixed: property=(\S+) (\S+) (.*)", line)
            if m:
                fixed.append({"property": m.group(1), "commit": m.group(2), "what": m.group(3)})
    return known, fixed


# --------------------------------------------------------------------------------------
# evidence
# --------------------------------------------------------------------------------------
def write_evidence(prop, tier, seed, coverage, assumptions, wall_s, violations, level="model_checking"):
    os.makedirs(EVIDENCE_DIR, exist_ok=True)
    ev = {
        "property_id": prop,
        "tier": tier,
        "seed": seed,
        "level": level,
        "coverage": coverage,
        "assumptions": assumptions,
        "wall_s": round(wall_s, 1),
        "violations": violations,
    }
    p = os.path.join(EVIDENCE_DIR, prop + ".json")
    tmp = p + ".tmp"
    with open(tmp, "w") as f:
        json.dump(ev, f, indent=1, sort_keys=False)
        f.write("\n")
    os.replace(tmp, p)
    return p


def repo_fingerprint(files):
    h = hashlib.sha256()
    for rel in sorted(files):
        try:
            with open(os.path.join(REPO, rel), "rb") as f:
                h.update(rel.encode() + b"\0" + f.read())
        except OSError:
            h.update(rel.encode() + b"\0<missing>")
    return h.hexdigest()[:16]
