"""Certificate engine (DESIGN.md section 8.2): SMT decision over ALL selections of what the REAL solver emitted.

For every universe U of a bounded family the real `Solver::solve` (scratch copy of /repo, pinned toolchain, real
dependencies) is run by /verif/native/cert, which dumps the verdict, the clause database exactly as the solver's
own `visit_literals` sees it, the learnt clauses with their antecedents and the conflict graph.  z3 then decides,
for all 2^n selections of the solvables (and all values of the helper variables) at once:

  spec-sat      Spec(U) satisfiable?                                  -> must equal the verdict            (C02)
  model         solution |= Spec(U)                                                                         (C01)
  sound         Spec(U) |= every emitted problem clause                                                      (C02: no false UNSAT)
  complete      emitted clauses |= Spec restricted to what was fetched                                       (C01: no false SAT)
  amo           per package: forbid clauses admit every single registered candidate and no two together      (C15)
  learnt        (clauses allocated earlier) |= learnt clause,  and  antecedents(learnt_why) |= learnt clause (C02, C03)
  graph         root AND facts of the conflict graph is UNSAT; each edge is true of U; nodes reachable        (C03)
  best          SAT(Spec AND first-ranked candidate of every single-package root requirement) => all selected (C08)

The universes are ENUMERATED (seeded generator + systematic families), the selections are decided by the solver.
Nothing here samples selections.  `Spec` is written from the text of property C01 only.
"""
import itertools
import json
import os
import random
import subprocess
import time

import z3

# ----------------------------------------------------------------------------------------------------------
# universes
# ----------------------------------------------------------------------------------------------------------


def gen_universe(rng, uid, profile):
    """profile: dict of knobs (see FAMILIES)."""
    npkg = rng.randint(profile.get("min_pkg", 1), profile["max_pkg"])
    pkgs, solvables, vsets, unions = [], [], [], []
    for p in range(npkg):
        nc = rng.randint(1, profile["max_cand"])
        cands = list(range(len(solvables), len(solvables) + nc))
        for c in cands:
            solvables.append({"id": c, "name": p, "deps": {"req": [], "con": []}})
        order = cands[:]
        rng.shuffle(order)           # provider listing order
        rank = cands[:]
        rng.shuffle(rank)            # sort_candidates order
        pk = {"name": p, "exists": True, "cands": order, "rank": rank, "favored": None, "locked": None,
              "excluded": [], "hint": "none"}
        if rng.random() < profile.get("p_favored", 0):
            pk["favored"] = rng.choice(cands)
        if rng.random() < profile.get("p_locked", 0):
            pk["locked"] = rng.choice(cands)
        if rng.random() < profile.get("p_excluded", 0):
            pk["excluded"] = rng.sample(cands, rng.randint(1, len(cands)))
        if pk["locked"] is not None and rng.random() < profile.get("p_locked_excluded", 0.3) and pk["locked"] not in pk["excluded"]:
            pk["excluded"].append(pk["locked"])        # a candidate that is both locked and excluded
        h = rng.random()
        if h < profile.get("p_hint_all", 0):
            pk["hint"] = "all"
        elif h < profile.get("p_hint_all", 0) + profile.get("p_hint_some", 0):
            pk["hint"] = rng.sample(cands, rng.randint(1, len(cands)))
        pkgs.append(pk)
    if rng.random() < profile.get("p_missing_pkg", 0):
        pkgs.append({"name": npkg, "exists": False, "cands": [], "rank": [], "favored": None, "locked": None,
                     "excluded": [], "hint": "none"})
    # version sets: a handful per package, arbitrary subsets of its candidates
    vs_by_pkg = {}
    for pk in pkgs:
        n_vs = rng.randint(1, profile.get("max_vs", 3))
        for _ in range(n_vs):
            c = pk["cands"]
            r = rng.random()
            if not c or r < profile.get("p_vs_empty", 0.08):
                m = []
            elif profile.get("p_narrow") and r < profile["p_narrow"]:
                m = sorted(rng.sample(c, min(len(c), rng.choice([1, 1, 2]))))
            elif r < 0.45:
                m = sorted(c)
            else:
                m = sorted(rng.sample(c, rng.randint(1, len(c))))
            vsets.append({"id": len(vsets), "name": pk["name"], "match": m})
            vs_by_pkg.setdefault(pk["name"], []).append(len(vsets) - 1)
    nvs = len(vsets)
    for _ in range(rng.randint(0, profile.get("max_unions", 2))):
        k = rng.randint(1, min(3, nvs))
        unions.append([rng.randrange(nvs) for _ in range(k)])

    def rand_req():
        if unions and rng.random() < profile.get("p_union", 0.2):
            return {"u": rng.randrange(len(unions))}
        return {"s": rng.randrange(nvs)}

    def vs_of_pkgs(lo, hi):
        ids = [v["id"] for v in vsets if lo <= v["name"] < hi]
        return rng.choice(ids) if ids else rng.randrange(nvs)

    for s in solvables:
        if rng.random() < profile.get("p_unknown", 0):
            s["deps"] = None
            continue
        if profile.get("layered"):
            # requirements point at later packages (long implication chains, decisions on many levels), constrains
            # point backwards (conflicts that are only discovered deep in the search)
            p = s["name"]
            for _ in range(rng.choice(profile.get("n_req", [1, 1, 2]))):
                s["deps"]["req"].append({"s": vs_of_pkgs(p + 1, min(npkg, p + 4))} if p + 1 < npkg else rand_req())
            for _ in range(rng.choice(profile.get("n_con", [0, 1, 1]))):
                s["deps"]["con"].append(vs_of_pkgs(0, max(1, p)) if rng.random() < 0.7 else rng.randrange(nvs))
            continue
        for _ in range(rng.choice(profile.get("n_req", [0, 0, 1, 1, 2]))):
            s["deps"]["req"].append(rand_req())
        for _ in range(rng.choice(profile.get("n_con", [0, 0, 0, 1]))):
            s["deps"]["con"].append(rng.randrange(nvs))
    def root_req():
        if profile.get("root_first_pkg"):
            return {"s": rng.choice(vs_by_pkg[0])}
        return {"s": rng.randrange(nvs)} if profile.get("root_single") else rand_req()

    problem = {"req": [root_req() for _ in range(rng.choice(profile.get("n_root_req", [1, 1, 2, 3])))],
               "con": [rng.randrange(nvs) for _ in range(rng.choice(profile.get("n_root_con", [0, 0, 1])))],
               "soft": []}
    if profile.get("soft"):
        k = rng.choice(profile.get("n_soft", [1, 1, 2, 3]))
        pool = [x["id"] for x in solvables if x["name"] != 0] if profile.get("root_first_pkg") else []
        problem["soft"] = [rng.choice(pool) if pool else rng.randrange(len(solvables)) for _ in range(k)]
    u = {"id": uid, "packages": pkgs, "solvables": solvables, "version_sets": vsets, "unions": unions,
         "problem": problem}
    if rng.random() < profile.get("p_cancel_in_rendering", 0.3):
        problem["cancel_in_rendering"] = True       # C04: the provider asks for cancellation while the report is built
    if profile.get("cache_probe"):
        u["cache_probe"] = True
    if profile.get("async"):
        # C10: completion orders of the outstanding provider requests: oldest first, newest first, two pseudo-random
        u["async_policies"] = [0, 1, 2 + rng.randrange(100), 102 + rng.randrange(100)]
    if profile.get("snapshot"):
        u["snapshot"] = True
    if profile.get("reuse"):
        probs = [problem]
        for _ in range(rng.randint(1, 3)):
            probs.append({"req": [rand_req() for _ in range(rng.choice([1, 1, 2]))],
                          "con": [rng.randrange(nvs) for _ in range(rng.choice([0, 0, 1]))], "soft": []})
        # some earlier solves are cancelled after a few provider fetches (C13: "including after ... Cancelled outcomes")
        for pr in probs[:-1]:
            if rng.random() < profile.get("p_cancel", 0.3):
                pr["cancel_after"] = rng.randint(0, 4)
        u["problems"] = probs
    return u


BASE = dict(max_pkg=4, max_cand=3, p_favored=0.25, p_locked=0.12, p_excluded=0.12, p_hint_all=0.15, p_hint_some=0.15,
            p_missing_pkg=0.15, p_unknown=0.06, p_union=0.2)
FAMILIES = {
    # plain dependency structure: stresses requires/constrains/forbid + learning
    "plain": dict(max_pkg=5, max_cand=3, p_union=0.15, n_req=[0, 1, 1, 2, 2], n_con=[0, 0, 1, 1]),
    # everything at once
    "full": dict(BASE),
    # many candidates per package: crosses the 2/4/8 helper-variable boundaries of the at-most-one encoding
    "wide": dict(max_pkg=3, max_cand=9, p_favored=0.2, p_locked=0.1, p_excluded=0.1, p_hint_all=0.2, p_union=0.25,
                 max_vs=4),
    # up to 18 candidates per package: helper-variable boundaries 8/9 and 16/17 of the at-most-one encoding as the REAL
    # encoder registers them (a quarter of the family size: the universes are large)
    "wider": dict(max_pkg=2, max_cand=18, p_favored=0.2, p_locked=0.1, p_excluded=0.1, p_hint_all=0.2, p_union=0.25, max_vs=5,
                  n_req=[0, 1, 1], n_con=[0, 0, 1]),
    # hints: eager encoding of candidates that may already be ruled out
    "hints": dict(BASE, p_hint_all=0.5, p_hint_some=0.3, p_locked=0.3, p_excluded=0.25),
    # deeper conflicts: more packages, every solvable has requirements and constrains -> learning and backjumping
    "hard": dict(max_pkg=8, min_pkg=5, max_cand=3, p_favored=0.1, p_union=0.1, p_vs_empty=0.02, max_vs=4,
                 n_req=[1, 2, 2, 3], n_con=[0, 1, 1, 2], n_root_req=[2, 3, 4], n_root_con=[0, 1]),
    # dense in conflicts: narrow version sets, two requirements and one or two constrains per solvable -> long searches,
    # learnt clauses with three and more literals, backjumps over several levels, watches that move repeatedly
    "dense": dict(max_pkg=7, min_pkg=5, max_cand=4, p_vs_empty=0.0, max_vs=6, p_favored=0.05, p_union=0.15, p_narrow=0.55,
                  n_req=[1, 2, 2, 3], n_con=[0, 1, 1], n_root_req=[2, 3], n_root_con=[0, 0, 1]),
    # layered: requirements go to later packages, constrains back to earlier ones -> many decision levels, conflicts found
    # deep, learnt clauses spanning several levels, backjumps over more than one level
    "deep": dict(max_pkg=12, min_pkg=8, max_cand=3, layered=True, p_vs_empty=0.0, max_vs=4, p_favored=0.1,
                 n_req=[1, 1, 2], n_con=[0, 1, 1, 2], n_root_req=[1, 2, 2], n_root_con=[0, 0, 1]),
    # constrains that reject several candidates at once, fetched lazily; some hints
    "lazycon": dict(max_pkg=5, min_pkg=3, max_cand=4, p_vs_empty=0.02, max_vs=5, p_hint_all=0.2, p_hint_some=0.2,
                    n_req=[1, 1, 2], n_con=[1, 1, 2, 2], n_root_req=[1, 2], n_root_con=[0, 1, 1], p_locked=0.1, p_excluded=0.1),
    # C16: what the snapshot format represents (no favored / locked); root requirements are single version sets because
    # from_provider() takes names, version sets and solvables as capture roots - unions are captured from dependencies
    "snapshot": dict(BASE, p_favored=0, p_locked=0, root_single=True, snapshot=True, p_union=0.3, max_unions=3),
    # soft requirements on packages the root problem never visits, dense requirements that lead back to the soft
    # solvable's own package
    "softloop": dict(max_pkg=3, min_pkg=2, max_cand=3, n_req=[1, 1, 2], n_con=[0, 0, 1], n_root_req=[1], n_root_con=[0],
                     soft=True, n_soft=[1, 1, 2], root_first_pkg=True, p_unknown=0.05, p_union=0.1, p_vs_empty=0.02),
    # C20 (observation): the cache's public query methods on universes with favored candidates and all hint kinds
    "cache": dict(BASE, cache_probe=True, p_favored=0.5, p_hint_all=0.3, p_hint_some=0.4, max_cand=4),
    # C10: the same problems through an asynchronous provider under four completion orders
    "async": dict(BASE, **{"async": True}),
    "asynchard": dict(max_pkg=8, min_pkg=5, max_cand=3, p_favored=0.1, p_union=0.15, p_vs_empty=0.02, max_vs=4, p_hint_all=0.2,
                      n_req=[1, 2, 2, 3], n_con=[0, 1, 1, 2], n_root_req=[2, 3, 4], n_root_con=[0, 1], **{"async": True}),
    "soft": dict(BASE, soft=True),
    # several soft requirements competing for few packages, many Unknown / excluded solvables
    "softx": dict(BASE, soft=True, n_soft=[2, 3, 4], max_pkg=3, p_unknown=0.2, p_excluded=0.3, p_locked=0.05, p_missing_pkg=0.05),
    "reuse": dict(BASE, reuse=True),
}


# ----------------------------------------------------------------------------------------------------------
# the specification, from property C01
# ----------------------------------------------------------------------------------------------------------
class Spec:
    def __init__(self, u):
        self.u = u
        self.pk = {p["name"]: p for p in u["packages"]}
        self.sv = {s["id"]: s for s in u["solvables"]}
        self.vs = {v["id"]: v for v in u["version_sets"]}
        self.X = {s["id"]: z3.Bool("x%d" % s["id"]) for s in u["solvables"]}

    def listed(self, name):
        p = self.pk.get(name)
        return p["cands"] if p and p["exists"] else []

    def matching(self, vsid):
        v = self.vs[vsid]
        return [c for c in self.listed(v["name"]) if c in v["match"]]

    def non_matching(self, vsid):
        v = self.vs[vsid]
        return [c for c in self.listed(v["name"]) if c not in v["match"]]

    def req_vsets(self, req):
        return [req["s"]] if "s" in req else list(self.u["unions"][req["u"]])

    def req_candidates(self, req):
        out = []
        for v in self.req_vsets(req):
            out += self.matching(v)
        return out

    def ranked(self, vsid):
        """sorted candidates of one version set: provider rank order, favored rotated to the front"""
        v = self.vs[vsid]
        p = self.pk.get(v["name"])
        m = self.matching(vsid)
        if not p:
            return m
        m = sorted(m, key=lambda c: p["rank"].index(c) if c in p["rank"] else 10 ** 6)
        f = p["favored"]
        if f is not None and f in m:
            m.remove(f)
            m.insert(0, f)
        return m

    def req_ranked(self, req):
        out = []
        for v in self.req_vsets(req):
            out += self.ranked(v)
        return out

    def Or(self, ids):
        return z3.Or([self.X[c] for c in ids]) if ids else z3.BoolVal(False)

    # --- parts (each returns a list of (label, formula)) ---------------------------------------------------
    def root_parts(self, problem):
        out = []
        for i, r in enumerate(problem["req"]):
            out.append(("root requires #%d %s" % (i, r), self.Or(self.req_candidates(r))))
        for v in problem["con"]:
            for c in self.non_matching(v):
                out.append(("root constrains vs%d excludes s%d" % (v, c), z3.Not(self.X[c])))
        return out

    def solvable_parts(self, sid):
        s = self.sv[sid]
        x = self.X[sid]
        if s["deps"] is None:
            return [("s%d has unknown dependencies" % sid, z3.Not(x))]
        out = []
        for i, r in enumerate(s["deps"]["req"]):
            out.append(("s%d requires #%d %s" % (sid, i, r), z3.Implies(x, self.Or(self.req_candidates(r)))))
        for v in s["deps"]["con"]:
            for c in self.non_matching(v):
                out.append(("s%d constrains vs%d excludes s%d" % (sid, v, c), z3.Implies(x, z3.Not(self.X[c]))))
        return out

    def package_parts(self, name, exempt=()):
        p = self.pk.get(name)
        if not p or not p["exists"]:
            return []
        out = []
        for e in p["excluded"]:
            if e in self.X and e not in exempt:
                out.append(("s%d is excluded by the provider" % e, z3.Not(self.X[e])))
        if p["locked"] is not None:
            for c in p["cands"]:
                if c != p["locked"] and c not in exempt:
                    out.append(("p%d is locked to s%d: s%d" % (name, p["locked"], c), z3.Not(self.X[c])))
        return out

    def amo_parts(self):
        out = []
        byname = {}
        for s in self.u["solvables"]:
            byname.setdefault(s["name"], []).append(s["id"])
        for n, ids in byname.items():
            for a, b in itertools.combinations(ids, 2):
                out.append(("one solvable per package p%d: s%d, s%d" % (n, a, b), z3.Not(z3.And(self.X[a], self.X[b]))))
        return out

    def full(self, problem, exempt=()):
        parts = self.root_parts(problem)
        for s in self.u["solvables"]:
            parts += self.solvable_parts(s["id"])
        for p in self.u["packages"]:
            parts += self.package_parts(p["name"], exempt)
        parts += self.amo_parts()
        return parts


# ----------------------------------------------------------------------------------------------------------
# checking one solve
# ----------------------------------------------------------------------------------------------------------
class Stats:
    def __init__(self):
        self.queries = 0
        self.solver_time = 0.0
        self.by_kind = {}
        self.nontrivial = 0
        self.universes = 0
        self.solves = 0
        self.verdicts = {"ok": 0, "unsolvable": 0, "cancelled": 0, "panic": 0}
        self.learnt_clauses = 0
        self.graphs = 0


CVC5_EVERY = 499       # every 499th query is re-asked to cvc5 (a second solver, once per run per ~500 queries)


def _cvc5_agrees(s, assumptions, z3_sat):
    s2 = z3.Solver()
    for f in s.assertions():
        s2.add(f)
    for a in assumptions:
        s2.add(a)
    text = "(set-logic ALL)\n" + s2.to_smt2()
    try:
        p = subprocess.run(["cvc5", "--lang", "smt2"], input=text, capture_output=True, text=True, timeout=30)
    except subprocess.TimeoutExpired:
        return None           # no second opinion on this query (counted, not an error: z3's answer stands)
    except OSError as e:
        raise RuntimeError("cvc5 cross-check could not run: %s" % e)
    out = p.stdout.strip().split("\n")
    if "(error" in p.stdout or p.returncode != 0 or not out or out[0] not in ("sat", "unsat"):
        raise RuntimeError("cvc5 cross-check inconclusive: %s %s" % (p.stdout[:200], p.stderr[:200]))
    return (out[0] == "sat") == z3_sat


def _check(stats, kind, fmls, assumptions=()):
    s = z3.Solver()
    s.set("timeout", 60000)
    for f in fmls:
        s.add(f)
    t0 = time.time()
    r = s.check(*assumptions)
    stats.solver_time += time.time() - t0
    stats.queries += 1
    stats.by_kind[kind] = stats.by_kind.get(kind, 0) + 1
    if r == z3.unknown:
        raise RuntimeError("z3 returned unknown for a %s query: %s" % (kind, s.reason_unknown()))
    if stats.queries % CVC5_EVERY == 0:
        agree = _cvc5_agrees(s, assumptions, r == z3.sat)
        if agree is None:
            stats.cvc5_timeouts = getattr(stats, "cvc5_timeouts", 0) + 1
        else:
            stats.cvc5_checked = getattr(stats, "cvc5_checked", 0) + 1
            if not agree:
                raise RuntimeError("z3 and cvc5 disagree on a %s query" % kind)
    return r == z3.sat, s


def check_solve(u, problem, res, stats, want):
    """Returns a list of violations: dicts {prop, what}. `want` = set of property ids to evaluate."""
    viol = []
    tags = set()
    sp = Spec(u)
    soft = list(problem.get("soft") or [])
    verdict = res["result"]
    stats.solves += 1
    stats.verdicts[verdict] = stats.verdicts.get(verdict, 0) + 1
    hard = dict(problem, soft=[])
    full = sp.full(hard)
    spec_f = [f for _, f in full]
    spec_sat, _ = _check(stats, "spec-sat", spec_f)

    if verdict == "panic":
        viol.append({"prop": "C04", "what": "solve() panicked: %s" % res.get("message", "")[:200]})
        viol.append({"prop": "C02", "what": "solve() panicked instead of returning a verdict (spec is %s)" % ("SAT" if spec_sat else "UNSAT")})
        return viol, tags
    if verdict == "cancelled":
        return viol, tags
    tags.add("C04")
    if "graph_panic" in res:
        viol.append({"prop": "C04", "what": "Conflict::graph / rendering panicked: %s" % res["graph_panic"][:200]})
        viol.append({"prop": "C03", "what": "Conflict::graph / rendering panicked: %s" % res["graph_panic"][:200]})

    # ---- C02 verdict -------------------------------------------------------------------------------------
    if verdict == "ok" and not spec_sat:
        viol.append({"prop": "C02", "what": "solve returned a solution but z3 proves that no valid selection exists"})
    if verdict == "unsolvable" and spec_sat:
        viol.append({"prop": "C02", "what": "solve returned Unsolvable but z3 finds a valid selection"})
        if soft:
            viol.append({"prop": "C14", "what": "hard problem is satisfiable (z3) but solve with soft requirements returned Unsolvable"})

    # ---- C01 model ---------------------------------------------------------------------------------------
    if verdict == "ok":
        sol = set(res["solution"])
        tags.add("C01")
        if len(sol) >= 2:
            tags.add("C05")
        if soft:
            tags.add("C14")
        if len(sol) != len(res["solution"]):
            viol.append({"prop": "C01", "what": "solution lists a solvable twice: %s" % res["solution"]})
        asg = [sp.X[i] if i in sol else z3.Not(sp.X[i]) for i in sp.X]
        exempt = tuple(s for s in soft if s in sol)
        parts = sp.full(hard, exempt) if exempt else full
        ok, _ = _check(stats, "model", [f for _, f in parts], asg)
        if not ok:
            bad = []
            for label, f in parts:
                good, _ = _check(stats, "model-part", [f], asg)
                if not good:
                    bad.append(label)
            viol.append({"prop": "C14" if soft else "C01", "what": "returned solution %s violates: %s" % (sorted(sol), "; ".join(bad[:4]))})
            if soft:
                viol.append({"prop": "C01", "what": "returned solution %s violates: %s" % (sorted(sol), "; ".join(bad[:4]))})
        # ---- C05 support (evaluation, not a solver query) ------------------------------------------------
        reach = set()
        frontier = []

        def visit_reqs(reqs):
            for r in reqs:
                for c in sp.req_candidates(r):
                    if c in sol and c not in reach:
                        reach.add(c)
                        frontier.append(c)
        visit_reqs(problem["req"])
        for s in soft:
            if s in sol and s not in reach:
                reach.add(s)
                frontier.append(s)
        while frontier:
            c = frontier.pop()
            d = sp.sv[c]["deps"]
            if d:
                visit_reqs(d["req"])
        extra = sol - reach
        if extra:
            viol.append({"prop": "C05", "what": "solution contains solvables not reachable through selected requirement edges: %s" % sorted(extra)})
        # ---- C08 best direct candidates ------------------------------------------------------------------
        if not soft:
            firsts = []
            all_single = True
            for r in problem["req"]:
                names = set(sp.vs[v]["name"] for v in sp.req_vsets(r))
                if len(names) == 1:      # a union whose members all name one package is a single-package requirement too
                    rk = sp.req_ranked(r)
                    if rk:
                        firsts.append(rk[0])
                else:
                    all_single = False
            # scope (DESIGN 8.4): with a multi-package union among the ROOT requirements the union's own first choice is a
            # direct choice as well and may legitimately win over another direct requirement; C08 speaks about choices made
            # for transitive dependencies, so such problems are not evaluated
            if not all_single:
                firsts = []
            if firsts:
                tags.add("C08")
            if firsts and not all(f in sol for f in firsts):
                possible, _ = _check(stats, "best", spec_f, [sp.X[f] for f in set(firsts)])
                if possible:
                    viol.append({"prop": "C08", "what": "a valid solution containing the first-ranked candidates %s of all direct requirements exists (z3) but solve returned %s" % (sorted(set(firsts)), sorted(sol))})
            # ---- C07 conflict-free preferred selection ---------------------------------------------------
            pref = preferred_selection(sp, problem)
            if pref is not None:
                tags.add("C07")
            if pref is not None and pref != sol:
                viol.append({"prop": "C07", "what": "first-ranked candidates %s are mutually compatible but solve returned %s" % (sorted(pref), sorted(sol))})

    # ---- certificates on the clause database ----------------------------------------------------------------
        # ---- C14, later soft requirements: x was skipped although (i) the hard problem is conflict-free and the joint
        # first-ranked closure of the soft solvables accepted before x and of x itself is consistent (the property's
        # antecedent, taken relative to what was accepted earlier) AND (ii) the solution that was actually returned can be
        # extended with x (so the skip cannot be blamed on choices the solver legitimately made for earlier ones)
        if soft and len(soft) >= 2 and preferred_selection(sp, hard) is not None:
            for k, x in enumerate(soft):
                if k == 0 or x in sol or x not in sp.X:
                    continue
                before = [y for y in soft[:k] if y in sol]
                joint = preferred_selection(sp, hard, extra=x, accepted=before)
                if joint is None:
                    continue
                accepted = tuple(y for y in soft if y in sol)
                skipped_before = [y for y in soft[:k] if y not in sol and y in sp.X and y != x]
                asg2 = [sp.X[i] for i in sol if i in sp.X] + [sp.X[x]] + [z3.Not(sp.X[y]) for y in skipped_before]
                addable, _ = _check(stats, "soft-ext", [f for _, f in sp.full(hard, accepted)], asg2)
                if addable:
                    # role of the failing input (used as the finding key): an earlier accepted soft solvable that is only
                    # installable through the lock/exclusion exemption, whose package the skipped one's closure mentions
                    def lapsed(a):
                        pk = sp.pk[sp.sv[a]["name"]]
                        return a in pk["excluded"] or pk["locked"] not in (None, a)
                    mentioned = set()
                    for m in joint:
                        d = sp.sv[m]["deps"]
                        if d and (m == x or m not in sol):
                            for r in d["req"]:
                                mentioned |= set(sp.vs[v]["name"] for v in sp.req_vsets(r))
                            mentioned |= set(sp.vs[v]["name"] for v in d["con"])
                    # ... or that any other requirement fetched in the meantime (the package-level clause then exists while the
                    # exempt solvable is installed, and conflicts in every later run_sat)
                    fetched = set(c[1] for c in res.get("calls", []) if c[0] == 0)
                    poison = sorted(set(a for a in before if lapsed(a) and (sp.sv[a]["name"] in mentioned or sp.sv[a]["name"] in fetched)))
                    if poison:
                        what = ("EXEMPTION LAPSES: soft solvable (requirement #K) skipped because its dependencies mention the package of an earlier accepted soft solvable "
                                "that is excluded/locked out by its own package (or that package was fetched for another requirement); fetching that package adds the exclusion/lock clause against the installed solvable")
                        what += " [s%d skipped, exempt s%s, solution %s]" % (x, poison, sorted(sol))
                    else:
                        what = "soft solvable s%d (requirement #%d) was skipped although its first-ranked closure is consistent with the conflict-free hard solution and the soft solvables accepted before it %s, and the returned solution %s can be extended with it (z3)" % (x, k + 1, before, sorted(sol))
                    viol.append({"prop": "C14", "what": what})
                    break
        # ---- C14: a soft solvable whose preferred closure is compatible with the conflict-free hard solution is taken
        if soft:
            pref = preferred_selection(sp, hard)
            if pref is not None:
                s0 = soft[0]
                both = preferred_selection(sp, hard, extra=s0)
                if both is not None and s0 not in sol:
                    viol.append({"prop": "C14", "what": "soft solvable s%d is compatible with the conflict-free hard solution %s (z3) but was not installed: %s" % (s0, sorted(pref), sorted(sol))})
    d = res.get("dump")
    if d:
        if any(c["kind"] == "learnt" for c in d["clauses"]) or verdict == "unsolvable":
            tags.add("C02")
        if any(c["kind"] == "forbid" for c in d["clauses"]):
            tags.add("C15")
        viol += check_dump(u, sp, hard, soft, res, d, stats, spec_f)
    if verdict == "unsolvable" and "graph" in res:
        tags.add("C03")
        viol += check_graph(u, sp, hard, res["graph"], stats)
    return viol, tags


def preferred_selection(sp, problem, extra=None, accepted=()):
    """C07 antecedent: close the root requirements under 'take the first-ranked candidate'; return the selection if it
    is consistent and each requirement is met ONLY by its own first choice, else None."""
    sel, todo, reqs = set(), [], []

    def take(reqlist):
        for r in reqlist:
            rk = sp.req_ranked(r)
            if not rk:
                return False
            reqs.append((r, rk[0]))
            if rk[0] not in sel:
                sel.add(rk[0])
                todo.append(rk[0])
        return True
    if not take(problem["req"]):
        return None
    for e in list(accepted) + ([extra] if extra is not None else []):
        if e not in sel:
            sel.add(e)
            todo.append(e)
    while todo:
        c = todo.pop()
        d = sp.sv[c]["deps"]
        if d is None:
            return None
        if not take(d["req"]):
            return None
    for r, first in reqs:
        if [c for c in sp.req_candidates(r) if c in sel] != [first] * len([c for c in sp.req_candidates(r) if c in sel]):
            return None
    s = z3.Solver()
    # no exemption for `extra`: the lock/exclusion exemption of a directly named solvable is an allowance, not something the
    # solver must grant (it does not when the package is also requested through a version set); soft solvables that WERE
    # accepted earlier are taken as they are
    for _, f in sp.full(dict(problem, soft=[]), exempt=tuple(accepted)):
        s.add(f)
    if s.check(*[sp.X[i] if i in sel else z3.Not(sp.X[i]) for i in sp.X]) != z3.sat:
        return None
    return sel


def check_dump(u, sp, hard, soft, res, d, stats, spec_f):
    viol = []
    kinds = {v[0]: (v[1], v[2]) for v in d["vars"]}
    V = {}
    for var, (k, ident) in kinds.items():
        if k == 0:
            V[var] = z3.BoolVal(True)          # the root is installed
        elif k == 1:
            V[var] = sp.X[ident] if ident in sp.X else z3.Bool("unknown_solvable_%d" % ident)
        else:
            V[var] = z3.Bool("h%d" % var)

    def lit(l):
        if l[0] not in V:
            V[l[0]] = z3.Bool("v%d" % l[0])
        return V[l[0]] if l[1] else z3.Not(V[l[0]])

    def F(c):
        return z3.Or([lit(l) for l in c["lits"]]) if c["lits"] else z3.BoolVal(False)

    clauses = d["clauses"]
    problem_clauses = [c for c in clauses if c["kind"] in ("requires", "constrains", "lock", "excluded")]
    forbid = [c for c in clauses if c["kind"] == "forbid"]
    learnt = [c for c in clauses if c["kind"] == "learnt"]
    stats.learnt_clauses += len(learnt)
    if learnt:
        stats.nontrivial += 1

    # the soft-requirement exemption makes lock/exclusion clauses of a directly named solvable optional: the spec the
    # clauses are compared with is the hard one; soundness is only claimed without soft requirements
    if not soft:
        # ---- sound: Spec |= each problem clause (one query; split on failure) ---------------------------------
        if problem_clauses:
            bad, _ = _check(stats, "sound", spec_f + [z3.Not(z3.And([F(c) for c in problem_clauses]))])
            if bad:
                for c in problem_clauses:
                    b, _ = _check(stats, "sound-1", spec_f + [z3.Not(F(c))])
                    if b:
                        viol.append({"prop": "C02", "what": "emitted %s clause #%d %s is not implied by the problem (would exclude valid solutions)" % (c["kind"], c["id"], c["lits"])})
                        break
    # ---- amo: per package, projected onto the candidates --------------------------------------------------
    groups = {}
    for c in forbid:
        groups.setdefault(c["meta"][2], []).append(c)
    registered = {}
    for name, cs in groups.items():
        svars = sorted(set(l[0] for c in cs for l in c["lits"] if kinds.get(l[0], (9,))[0] == 1))
        registered[name] = svars
        wrong = [v for v in svars if sp.sv.get(kinds[v][1], {}).get("name") != name]
        if wrong:
            viol.append({"prop": "C15", "what": "forbid clauses of package p%d mention solvables of another package: vars %s" % (name, wrong)})
        G = [F(c) for c in cs]
        if len(svars) >= 2:
            two, _ = _check(stats, "amo-q1", G + [z3.Or([z3.And(V[a], V[b]) for a, b in itertools.combinations(svars, 2)])])
            if two:
                viol.append({"prop": "C15", "what": "forbid clauses of package p%d allow two candidates together (%d registered)" % (name, len(svars))})
                viol.append({"prop": "C01", "what": "forbid clauses of package p%d allow two candidates together" % name})
        for v in svars:
            one, _ = _check(stats, "amo-q2", G, [V[w] if w == v else z3.Not(V[w]) for w in svars])
            if not one:
                viol.append({"prop": "C15", "what": "forbid clauses of package p%d make candidate var %d unselectable on its own" % (name, v)})
                break
    # ---- complete: emitted clauses |= Spec restricted to what was fetched ---------------------------------
    if res["result"] != "cancelled":
        cnf = [F(c) for c in problem_clauses + forbid]
        parts = sp.root_parts(hard)
        for s in d["added_solvables"]:
            if s is not None:
                parts += sp.solvable_parts(s)
        for p in d["added_packages"]:
            parts += sp.package_parts(p, exempt=tuple(soft))
        # one solvable per package among candidates that were revealed through a requirement
        revealed = {}
        for c in clauses:
            if c["kind"] == "requires":
                for l in c["lits"]:
                    if l[1] and kinds.get(l[0], (9,))[0] == 1:
                        sid = kinds[l[0]][1]
                        if sid in sp.sv:
                            revealed.setdefault(sp.sv[sid]["name"], set()).add(sid)
        for n, ids in revealed.items():
            for a, b in itertools.combinations(sorted(ids), 2):
                parts.append(("one solvable per package p%d: s%d, s%d" % (n, a, b), z3.Not(z3.And(sp.X[a], sp.X[b]))))
        if parts:
            bad, _ = _check(stats, "complete", cnf + [z3.Not(z3.And([f for _, f in parts]))])
            if bad:
                for label, f in parts:
                    b, _ = _check(stats, "complete-1", cnf + [z3.Not(f)])
                    if b:
                        prop = "C15" if label.startswith("one solvable") else "C01"
                        viol.append({"prop": prop, "what": "the clause database does not enforce: %s" % label})
                        if prop == "C15":
                            viol.append({"prop": "C01", "what": "the clause database does not enforce: %s" % label})
                        break
    # ---- learnt: derivation order and antecedents ------------------------------------------------------------
    why = {w[0]: w[1] for w in d["learnt_why"]}
    byid = {c["id"]: c for c in clauses}
    for L in learnt:
        earlier = [F(c) for c in clauses if c["id"] < L["id"] and c["kind"] != "root"]
        bad, _ = _check(stats, "learnt-rup", earlier + [z3.Not(F(L))])
        if bad:
            viol.append({"prop": "C02", "what": "learnt clause #%d %s is not implied by the clauses that existed when it was learnt" % (L["id"], L["lits"])})
            break
        ante = why.get(L["id"])
        if ante is None:
            viol.append({"prop": "C03", "what": "learnt clause #%d has no recorded antecedents" % L["id"]})
            continue
        unknown = [a for a in ante if a not in byid]
        if unknown:
            viol.append({"prop": "C03", "what": "learnt clause #%d names antecedents %s that are not in the clause database" % (L["id"], unknown)})
            break
        bad, _ = _check(stats, "learnt-why", [F(byid[a]) for a in ante if byid[a]["kind"] != "root"] + [z3.Not(F(L))])
        if bad:
            viol.append({"prop": "C03", "what": "learnt clause #%d %s is not implied by its recorded antecedents %s" % (L["id"], L["lits"], ante)})
            break
    return viol


def check_graph(u, sp, hard, g, stats):
    """C03: every edge states a true fact; the facts alone (plus one-per-package for forbid-joined nodes) refute root."""
    viol = []
    stats.graphs += 1
    nodes = {n[0]: n[1] for n in g["nodes"]}
    N = {}
    for i, n in nodes.items():
        if n == "root":
            N[i] = z3.BoolVal(True)
        elif isinstance(n, dict) and "s" in n:
            N[i] = z3.Bool("n_s%d" % n["s"])
        else:
            N[i] = None   # unresolved / excluded sink
    facts = []
    out_req = {}
    forbid_pairs = []

    def bad(msg):
        viol.append({"prop": "C03", "what": msg})

    def node_solvable(i):
        n = nodes[i]
        return n["s"] if isinstance(n, dict) and "s" in n else None

    for (a, b, w) in g["edges"]:
        if isinstance(w, dict) and "requires" in w:
            out_req.setdefault((a, json.dumps(w["requires"], sort_keys=True)), []).append(b)
        elif w == "forbid":
            sa, sb = node_solvable(a), node_solvable(b)
            if sa is None or sb is None or sp.sv[sa]["name"] != sp.sv[sb]["name"]:
                bad("forbid edge joins nodes that are not two solvables of one package: %s -> %s" % (nodes[a], nodes[b]))
            forbid_pairs.append((a, b))
        elif w == "excluded":
            sa = node_solvable(a)
            ok = sa is not None and (sa in sp.pk[sp.sv[sa]["name"]]["excluded"] or sp.sv[sa]["deps"] is None)
            if not ok:
                bad("excluded edge from %s, which the provider neither excluded nor reported with unknown dependencies" % (nodes[a],))
            if N[a] is not None:
                facts.append(z3.Not(N[a]))
        elif isinstance(w, dict) and "locked" in w:
            sb = node_solvable(b)
            l = w["locked"]
            ok = sb is not None and nodes[a] == "root" and sp.pk[sp.sv[sb]["name"]]["locked"] == l and sb != l
            if not ok:
                bad("lock edge %s -> %s (locked s%s) does not match the provider's lock" % (nodes[a], nodes[b], l))
            facts.append(z3.Not(N[b]))
        elif isinstance(w, dict) and "constrains" in w:
            v = w["constrains"]
            sa, sb = node_solvable(a), node_solvable(b)
            src_has = (v in hard["con"]) if nodes[a] == "root" else (sa is not None and sp.sv[sa]["deps"] is not None and v in sp.sv[sa]["deps"]["con"])
            ok = src_has and sb is not None and sb in sp.non_matching(v)
            if not ok:
                bad("constrains edge %s -> %s via vs%d: the source has no such constrains entry or the target matches it" % (nodes[a], nodes[b], v))
            if N[a] is not None and N[b] is not None:
                facts.append(z3.Not(z3.And(N[a], N[b])))
        else:
            bad("unknown edge label %s" % (w,))
    for (a, rj), targets in out_req.items():
        r = json.loads(rj)
        sa = node_solvable(a)
        owner_reqs = hard["req"] if nodes[a] == "root" else (sp.sv[sa]["deps"]["req"] if sa is not None and sp.sv[sa]["deps"] else [])
        if r not in owner_reqs:
            bad("requires edge from %s with requirement %s that does not belong to it" % (nodes[a], r))
        cands = sp.req_candidates(r)
        tset = [nodes[t] for t in targets]
        if cands:
            # a requirement that its source lists twice yields two clauses and therefore duplicate edges: compare as sets
            got = sorted(set(t["s"] for t in tset if isinstance(t, dict) and "s" in t))
            if got != sorted(set(cands)) or any(not (isinstance(t, dict) and "s" in t) for t in tset):
                bad("requires edge from %s for %s points at %s but the requirement's candidates are %s" % (nodes[a], r, tset, sorted(cands)))
        else:
            if set(map(str, tset)) != {"unresolved"}:
                bad("requires edge from %s for %s has no candidates but points at %s instead of the unresolved node" % (nodes[a], r, tset))
        ts = [N[t] for t in targets if N[t] is not None]
        if N[a] is not None:
            facts.append(z3.Implies(N[a], z3.Or(ts) if ts else z3.BoolVal(False)))
    # nodes joined by forbid edges: at most one per connected component
    comp = {}
    for a, b in forbid_pairs:
        ca, cb = comp.get(a, {a}), comp.get(b, {b})
        m = ca | cb
        for x in m:
            comp[x] = m
    seen = set()
    for m in comp.values():
        key = tuple(sorted(m))
        if key in seen:
            continue
        seen.add(key)
        for a, b in itertools.combinations(key, 2):
            if N[a] is not None and N[b] is not None:
                facts.append(z3.Not(z3.And(N[a], N[b])))
    # reachability from root
    adj = {}
    for (a, b, _w) in g["edges"]:
        adj.setdefault(a, []).append(b)
    reach, todo = {g["root"]}, [g["root"]]
    while todo:
        x = todo.pop()
        for y in adj.get(x, []):
            if y not in reach:
                reach.add(y)
                todo.append(y)
    if set(nodes) - reach:
        bad("conflict graph nodes not reachable from the root: %s" % [nodes[i] for i in set(nodes) - reach])
    sat, _ = _check(stats, "graph", facts)
    if sat:
        bad("the facts shown in the conflict graph admit a selection that installs the root (the report is not a proof)")
    # bounded output (C04): every node is reported at most once and every edge contributes at most one line
    size = len(g["nodes"]) + len(g["edges"])
    if g.get("message_lines", 0) > 3 * size + 10:
        viol.append({"prop": "C04", "what": "the user-friendly message has %d lines for a conflict graph of %d nodes and %d edges" % (
            g["message_lines"], len(g["nodes"]), len(g["edges"]))})
    if g.get("graphviz_len", 0) > 400 * size + 400:
        viol.append({"prop": "C04", "what": "the graphviz output has %d bytes for a conflict graph of %d nodes and %d edges" % (
            g["graphviz_len"], len(g["nodes"]), len(g["edges"]))})
    return viol


def check_async(u, problem, live, runs, stats):
    """C10: every completion order gives the synchronous verdict (= z3's), a valid solution, no duplicate provider
    requests and no deadlock."""
    viol = []
    if not runs:
        return viol
    sp = Spec(u)
    full = [f for _, f in sp.full(dict(problem, soft=[]))]
    spec_sat, _ = _check(stats, "spec-sat", full)
    for r in runs:
        label = "completion order policy %d" % r["policy"]
        if r["result"] == "panic":
            msg = r.get("message", "")
            what = "never completes (deadlock)" if "deadlock" in msg else "panicked: %s" % msg[:160]
            viol.append({"prop": "C10", "what": "asynchronous solve under %s %s" % (label, what)})
            continue
        if r["result"] not in ("ok", "unsolvable"):
            viol.append({"prop": "C10", "what": "asynchronous solve under %s returned %s" % (label, r["result"])})
            continue
        if (r["result"] == "ok") != spec_sat:
            viol.append({"prop": "C10", "what": "asynchronous solve under %s returned %s but z3 says the problem is %s" % (
                label, r["result"], "satisfiable" if spec_sat else "unsatisfiable")})
            continue
        if live["result"] in ("ok", "unsolvable") and live["result"] != r["result"]:
            viol.append({"prop": "C10", "what": "asynchronous solve under %s returned %s, the synchronous run %s" % (label, r["result"], live["result"])})
        if r["result"] == "ok":
            sol = set(r["solution"])
            ok, _ = _check(stats, "model", full, [sp.X[i] if i in sol else z3.Not(sp.X[i]) for i in sp.X])
            if not ok:
                viol.append({"prop": "C10", "what": "solution %s of the asynchronous solve under %s is not valid" % (sorted(sol), label)})
        seen = set()
        for c in r["calls"]:
            if c[0] in (5, 6):
                if tuple(c) in seen:
                    viol.append({"prop": "C10", "what": "asynchronous solve under %s asked the provider twice for the %s %d" % (
                        label, "candidates of package" if c[0] == 5 else "dependencies of solvable", c[1])})
                    break
                seen.add(tuple(c))
    return viol


def check_cache(u, c):
    """C20 by OBSERVATION (no solver involved): the public SolverCache query methods against the universe."""
    if c is None:
        return []
    if "panic" in c:
        return [{"prop": "C20", "what": "SolverCache query panicked: %s" % c["panic"][:200]}]
    viol = []
    sp = Spec(u)
    for e in c["version_sets"]:
        v = e["vs"]
        if e["matching"] != sp.matching(v) or e["non_matching"] != sp.non_matching(v):
            viol.append({"prop": "C20", "what": "cached matching/non-matching lists of vs%d are %s / %s, filter_candidates gives %s / %s" % (
                v, e["matching"], e["non_matching"], sp.matching(v), sp.non_matching(v))})
            break
        if e["sorted"] != sp.ranked(v):
            viol.append({"prop": "C20", "what": "sorted candidates of vs%d are %s, expected %s (sort order, favored first)" % (v, e["sorted"], sp.ranked(v))})
            break
    for e in c["unions"]:
        if e["sorted"] != sp.req_ranked({"u": e["u"]}):
            viol.append({"prop": "C20", "what": "sorted candidates of union %d are %s, expected %s" % (e["u"], e["sorted"], sp.req_ranked({"u": e["u"]}))})
            break
    if not c["stable"] or c["provider_calls_on_repeat"] != 0:
        viol.append({"prop": "C20", "what": "repeated cache queries changed their answer or consulted the provider again (%d calls)" % c["provider_calls_on_repeat"]})
    hinted = set()
    for p in u["packages"]:
        if p["exists"]:
            hinted |= set(p["cands"]) if p["hint"] == "all" else set(p["hint"]) if isinstance(p["hint"], list) else set()
    n = len(u["solvables"])
    exp_before = [s in hinted for s in range(n)]
    exp_after = [s in hinted or s in c["fetched"] for s in range(n)]
    if c["avail_before"] != exp_before:
        viol.append({"prop": "C20", "what": "availability query before any fetch is %s, hinted solvables are %s" % (c["avail_before"], sorted(hinted))})
    elif c["avail_after"] != exp_after:
        viol.append({"prop": "C20", "what": "availability query after fetching %s is %s, expected %s" % (c["fetched"], c["avail_after"], exp_after)})
    if c["dependency_calls"] != len(c["fetched"]):
        viol.append({"prop": "C20", "what": "dependencies requested %d times for %d solvables" % (c["dependency_calls"], len(c["fetched"]))})
    return viol


def check_snapshot(u, problem, live, snap, stats):
    """C16: solving through DependencySnapshot::from_provider(U) (directly and after a JSON round trip) vs. Spec(U)."""
    viol = []
    if snap is None:
        return viol
    if "panic" in snap:
        return [{"prop": "C16", "what": "capturing or solving through the snapshot panicked: %s" % snap["panic"][:200]}]
    if "error" in snap:
        return [{"prop": "C16", "what": "snapshot: %s" % snap["error"]}]
    sp = Spec(u)
    hard = dict(problem, soft=[])
    full = [f for _, f in sp.full(hard)]
    spec_sat, _ = _check(stats, "spec-sat", full)
    for variant in ("direct", "roundtrip"):
        r = snap[variant]
        label = "snapshot" if variant == "direct" else "snapshot after a serde_json round trip"
        if r["result"] == "panic":
            viol.append({"prop": "C16", "what": "solve through the %s panicked: %s" % (label, r.get("message", "")[:160])})
            continue
        if (r["result"] == "ok") != spec_sat:
            viol.append({"prop": "C16", "what": "solve through the %s returned %s but z3 says the live provider's problem is %s" % (
                label, r["result"], "satisfiable" if spec_sat else "unsatisfiable")})
            continue
        if r["result"] == "ok":
            sol = set(r["solution"])
            ok, _ = _check(stats, "model", full, [sp.X[i] if i in sol else z3.Not(sp.X[i]) for i in sp.X])
            if not ok:
                viol.append({"prop": "C16", "what": "solution %s obtained through the %s is not valid against the live provider's data" % (sorted(sol), label)})

    # the provider's candidate preference order: sorted candidates of every captured version set and union, as reported
    # through the snapshot after the round trip, equal the live ranking (identical SOLUTIONS are not promised: the snapshot
    # hints more solvables as cheaply available, which changes the order in which clauses are added and decisions are made)
    for vid, so in snap.get("ranked", []):
        if so != sp.ranked(vid):
            viol.append({"prop": "C16", "what": "the snapshot does not preserve the provider's preference order: sorted candidates of vs%d are %s, the live provider ranks them %s" % (vid, so, sp.ranked(vid))})
            break
    for uid, so in snap.get("ranked_unions", []):
        if so != sp.req_ranked({"u": uid}):
            viol.append({"prop": "C16", "what": "the snapshot does not preserve the provider's preference order: sorted candidates of union %d are %s, the live provider ranks them %s" % (uid, so, sp.req_ranked({"u": uid}))})
            break
    if snap["fresh_id"] in snap["captured_version_sets"]:
        viol.append({"prop": "C16", "what": "add_package_requirement returned id %d, which is a captured version set" % snap["fresh_id"]})
    if not snap["captured_resolve_after_add"]:
        viol.append({"prop": "C16", "what": "a captured version set no longer resolves to its entry after add_package_requirement"})
    return viol


# ----------------------------------------------------------------------------------------------------------
# driver
# ----------------------------------------------------------------------------------------------------------
def _run_batch(binary, universes, timeout):
    inp = "\n".join(json.dumps(u) for u in universes) + "\n"
    try:
        p = subprocess.run([binary], input=inp, capture_output=True, text=True, timeout=timeout)
        out, rc, err, timed_out = p.stdout, p.returncode, p.stderr, False
    except subprocess.TimeoutExpired as e:
        out = e.stdout.decode(errors="replace") if isinstance(e.stdout, bytes) else (e.stdout or "")
        rc, err, timed_out = None, "", True
    outs = {}
    for line in out.split("\n"):
        if line.strip():
            try:
                o = json.loads(line)
            except ValueError:
                continue          # a line cut short by the kill
            outs[o["id"]] = o
    return outs, rc, err, timed_out


def run_driver(binary, universes, batch=200, batch_timeout=120, single_timeout=10):
    """Returns (outs, rc, stderr_tail, hangs).  A universe on which the driver does not come back within
    `single_timeout` seconds (solve or conflict rendering does not terminate) is listed in `hangs`; a universe on which
    the driver process dies is reported with rc != 0."""
    outs, hangs = {}, []
    i = 0
    while i < len(universes):
        chunk = universes[i:i + batch]
        i += batch
        o, rc, err, to = _run_batch(binary, chunk, batch_timeout)
        outs.update(o)
        missing = [u for u in chunk if u["id"] not in o]
        if not missing:
            continue
        # the driver stopped at the first missing universe: run the rest one by one
        for u in missing:
            o1, rc1, err1, to1 = _run_batch(binary, [u], single_timeout)
            if u["id"] in o1:
                outs.update(o1)
            elif to1:
                hangs.append(u)
            else:
                return outs, rc1 if rc1 is not None else -1, (err1 or "")[-2000:], hangs
    return outs, 0, "", hangs


TINY_TOTAL = 3 * 16 ** 4


def tiny_universe(index, uid):
    """The index-th universe of the EXHAUSTIVE family `tiny`: packages p0 = {s0, s1}, p1 = {s2, s3}; version sets = the three
    non-empty subsets of each package; every solvable has at most one requirement and at most one constrains entry, each on
    a version set of the OTHER package (16 combinations per solvable, cycles included); the root requires one of the three
    version sets of p0.  3 * 16^4 = 196608 universes."""
    root = index % 3
    index //= 3
    vsets = [{"id": 0, "name": 0, "match": [0]}, {"id": 1, "name": 0, "match": [1]}, {"id": 2, "name": 0, "match": [0, 1]},
             {"id": 3, "name": 1, "match": [2]}, {"id": 4, "name": 1, "match": [3]}, {"id": 5, "name": 1, "match": [2, 3]}]
    solvables = []
    for sid in range(4):
        d = index % 16
        index //= 16
        other = 3 if sid < 2 else 0
        r, c = d % 4, d // 4
        solvables.append({"id": sid, "name": 0 if sid < 2 else 1,
                          "deps": {"req": [{"s": other + r - 1}] if r else [], "con": [other + c - 1] if c else []}})
    pk = lambda n, c: {"name": n, "exists": True, "cands": c, "rank": c, "favored": None, "locked": None, "excluded": [], "hint": "none"}
    return {"id": uid, "packages": [pk(0, [0, 1]), pk(1, [2, 3])], "solvables": solvables, "version_sets": vsets, "unions": [],
            "problem": {"req": [{"s": root}], "con": [], "soft": []}, "family": "tiny"}


def diamond_universe(rng, uid):
    """Layered diamonds: every candidate of layer i requires 'any candidate' of layer i+1 (sometimes two requirements, sometimes
    a union of two version sets); the last layer requires a missing package or is excluded - an unsolvable problem whose
    conflict graph has exponentially many root-to-leaf paths but only a linear number of nodes and edges (C04: bounded output)."""
    layers = rng.randint(4, 8)
    pkgs, solvables, vsets, unions = [], [], [], []
    for p in range(layers):
        nc = rng.randint(2, 3)
        cands = list(range(len(solvables), len(solvables) + nc))
        for c in cands:
            solvables.append({"id": c, "name": p, "deps": {"req": [], "con": []}})
        pkgs.append({"name": p, "exists": True, "cands": cands, "rank": cands[:], "favored": None, "locked": None,
                     "excluded": [], "hint": "none"})
        vsets.append({"id": len(vsets), "name": p, "match": cands[:]})            # vs 2p: any
        vsets.append({"id": len(vsets), "name": p, "match": cands[:rng.randint(1, nc)]})   # vs 2p+1: a prefix
    missing = layers
    pkgs.append({"name": missing, "exists": False, "cands": [], "rank": [], "favored": None, "locked": None, "excluded": [], "hint": "none"})
    vsets.append({"id": len(vsets), "name": missing, "match": []})
    vs_missing = len(vsets) - 1
    for s in solvables:
        p = s["name"]
        if p + 1 < layers:
            if rng.random() < 0.3:
                unions.append([2 * (p + 1) + 1, 2 * (p + 1)])
                s["deps"]["req"].append({"u": len(unions) - 1})
            else:
                s["deps"]["req"].append({"s": 2 * (p + 1)})
        else:
            mode = rng.random()
            if mode < 0.6:
                s["deps"]["req"].append({"s": vs_missing})
            elif mode < 0.8:
                s["deps"] = None
            else:
                pkgs[p]["excluded"].append(s["id"])
    problem = {"req": [{"s": 0}], "con": [], "soft": []}
    if rng.random() < 0.3:
        problem["cancel_in_rendering"] = True
    return {"id": uid, "packages": pkgs, "solvables": solvables, "version_sets": vsets, "unions": unions, "problem": problem}


def generate(seed, family, n, start_id=0):
    if family == "diamond":
        import zlib
        rng = random.Random((seed * 1000003) ^ zlib.crc32(b"diamond"))
        return [dict(diamond_universe(rng, start_id + i), family=family) for i in range(n)]
    if family == "tiny":
        # quick: a window of n consecutive indices chosen by the seed; n >= TINY_TOTAL: the whole family
        if n >= TINY_TOTAL:
            return [tiny_universe(i, start_id + i) for i in range(TINY_TOTAL)]
        off = (seed * 7919 * n) % TINY_TOTAL
        return [tiny_universe((off + i * 37) % TINY_TOTAL, start_id + i) for i in range(n)]
    import zlib
    rng = random.Random((seed * 1000003) ^ zlib.crc32(family.encode()))
    return [dict(gen_universe(rng, start_id + i, FAMILIES[family]), family=family) for i in range(n)]
