#!/bin/sh
# Nothing is prebuilt: every check rebuilds what it needs from /repo's working tree in a scratch directory.
# This only verifies that the tool chain the checks rely on is present.
set -e
cd "$(dirname "$0")"
command -v cargo >/dev/null
cargo kani --version >/dev/null 2>&1 || { echo "cargo kani missing"; exit 1; }
command -v python3 >/dev/null
command -v python3-vt >/dev/null
python3-vt -c "import z3" 
mkdir -p evidence replays
echo "setup ok"
